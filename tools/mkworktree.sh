#!/bin/bash
# tools/mkworktree.sh <dir>: scratch git worktree of /repo HEAD with the (untracked) extension binaries hard-linked in
set -e
d="$1"
rm -rf "$d"
git -C /repo worktree prune
git -C /repo worktree add -q --detach "$d" HEAD
cd /repo
find . -name "*.so" -not -path "./.git/*" | while read f; do ln "$f" "$d/$f" 2>/dev/null || cp "$f" "$d/$f"; done
echo "$d"
