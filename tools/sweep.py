#!/venv/bin/python
"""tools/sweep.py <tier> <seed> [<seed> ...] [--only C01,C02]
Runs every claimed check for each seed from fresh processes and reports any run
that is not silent (calibration step of DESIGN 1.5a)."""
import json, os, subprocess, sys, time
here = os.path.dirname(os.path.dirname(os.path.abspath(__file__)))
args = sys.argv[1:]
only = None
if '--only' in args:
    i = args.index('--only'); only = args[i + 1].split(','); del args[i:i + 2]
tier = args[0]
seeds = [int(x) for x in args[1:]]
man = json.load(open(os.path.join(here, 'MANIFEST.json')))
pids = [c['property_id'] for c in man['checks']]
if only:
    pids = [p for p in pids if p in only]
bad = []
for seed in seeds:
    for pid in pids:
        env = dict(os.environ, VERIF_SEED=str(seed))
        t0 = time.time()
        p = subprocess.run([os.path.join(here, 'check'), pid, tier], env=env, stdout=subprocess.PIPE, stderr=subprocess.STDOUT, text=True, cwd=here)
        lines = p.stdout.strip().splitlines()
        summ = [l for l in lines if l.startswith(pid + ' ')]
        print('seed=%d %s rc=%d %.0fs %s' % (seed, pid, p.returncode, time.time() - t0, summ[-1] if summ else lines[-2:]), flush=True)
        if p.returncode != 0:
            bad.append((seed, pid, p.returncode))
            for l in lines:
                if l.startswith('  idx') or l.startswith('INCONCLUSIVE'):
                    print('    ' + l[:300], flush=True)
print('NOT SILENT:', bad)
sys.exit(1 if bad else 0)
