#!/venv/bin/python
"""tools/mut.py <PID[,PID..]> <repo-relative file> <old> <new> [tier]
Apply a literal replacement to a file of /repo, run the check(s), revert.
For calibration of the monitors (DESIGN 1.5); never leaves /repo modified."""
import os, subprocess, sys
pids, rel, old, new = sys.argv[1:5]
tier = sys.argv[5] if len(sys.argv) > 5 else 'quick'
path = os.path.join('/repo', rel)
orig = open(path).read()
if old not in orig:
    print('pattern not found'); sys.exit(3)
try:
    open(path, 'w').write(orig.replace(old, new, 1))
    for pid in pids.split(','):
        p = subprocess.run(['/verif/check', pid, tier], stdout=subprocess.PIPE, stderr=subprocess.STDOUT, text=True)
        lines = p.stdout.strip().splitlines()
        summ = [l for l in lines if l.startswith(pid + ' ')]
        print('%s rc=%d %s' % (pid, p.returncode, summ[-1] if summ else lines[-3:]))
        for l in lines:
            if l.startswith('  idx'):
                print('   ', l[:160]); break
finally:
    open(path, 'w').write(orig)
    subprocess.run(['git', '-C', '/repo', 'status', '--short'])
