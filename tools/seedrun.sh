#!/bin/bash
# tools/seedrun.sh <worktree> <PID> [<PID> ...]: run quick checks against a tree that carries a seeded change
wt="$1"; shift
for p in "$@"; do
  out=$(VERIF_REPO="$wt" /verif/check $p quick 2>&1)
  rc=$?
  echo "$p rc=$rc $(echo "$out" | grep "^$p " | tail -1)"
  echo "$out" | grep "^  idx" | head -2 | cut -c1-200
done
