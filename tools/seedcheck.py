#!/venv/bin/python
"""tools/seedcheck.py [name-substring ...]  - regression of the checks against the stored seeded changes.
For every seeded/<name>/: scratch worktree of /repo HEAD under /tmp, apply patch.diff, run the quick tier of the
checks named in meta.json 'caught_by' (first Cnn tokens) through VERIF_REPO, expect at least one VIOLATION, remove
the worktree.  Prints one line per seeded change; exit 1 if a change that used to be caught is missed."""
import json, os, re, subprocess, sys
here = os.path.dirname(os.path.dirname(os.path.abspath(__file__)))
only = sys.argv[1:]
bad = []
for name in sorted(os.listdir(os.path.join(here, 'seeded'))):
    d = os.path.join(here, 'seeded', name)
    if not os.path.isdir(d) or not os.path.exists(os.path.join(d, 'meta.json')) or (only and not any(o in name for o in only)):
        continue
    meta = json.load(open(os.path.join(d, 'meta.json')))
    ids = []
    for tok in re.findall(r'C\d\d', meta['caught_by']):
        if tok not in ids:
            ids.append(tok)
    if meta.get('checks'):
        ids = meta['checks']
    wt = os.environ.get('SEEDCHECK_WT', '/tmp/wt_seedcheck')
    subprocess.run([os.path.join(here, 'tools', 'mkworktree.sh'), wt], stdout=subprocess.DEVNULL, check=True)
    ap = subprocess.run(['git', '-C', wt, 'apply', os.path.join(d, 'patch.diff')], stderr=subprocess.PIPE, text=True)
    if ap.returncode != 0:
        print('%-60s patch does not apply on HEAD (%s)' % (name, ap.stderr.strip().splitlines()[-1][:80] if ap.stderr.strip() else ''), flush=True)
        subprocess.run(['git', '-C', '/repo', 'worktree', 'remove', '--force', wt])
        continue
    res = []
    for pid in ids[:3]:
        p = subprocess.run([os.path.join(here, 'check'), pid, 'quick'], env=dict(os.environ, VERIF_REPO=wt), cwd=here,
                           stdout=subprocess.PIPE, stderr=subprocess.STDOUT, text=True)
        summ = [l for l in p.stdout.splitlines() if l.startswith(pid + ' ')]
        m = re.search(r'(\d+) violation', summ[-1]) if summ else None
        res.append((pid, p.returncode, int(m.group(1)) if m else -1))
        if p.returncode == 1:
            break
    ok = any(rc == 1 for _, rc, _ in res)
    print('%-60s %s %s' % (name, 'caught' if ok else 'MISSED', ' '.join('%s:rc=%d,viol=%d' % r for r in res)), flush=True)
    if not ok and 'no longer manifests' not in meta['caught_by'] and 'left open' not in meta['caught_by']:
        bad.append(name)       # 'left open': recorded gaps of the last round (DESIGN 10.6), not regressions
    subprocess.run(['git', '-C', '/repo', 'worktree', 'remove', '--force', wt])
print('missed:', bad)
sys.exit(1 if bad else 0)
