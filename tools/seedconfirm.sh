#!/bin/bash
# tools/seedconfirm.sh <id> ...: confirm a produced change myself: demo fails with it, passes on /repo, existing suite passes with it
for k in "$@"; do
  wt=/tmp/wt_$k; out=/tmp/seeded_out/$k
  git -C $wt diff > $out/patch.diff
  (cd $wt && PYTHONPATH=$wt timeout 1800 /venv/bin/python $out/demo.py > $out/demo_with.log 2>&1; echo "exit $?" >> $out/demo_with.log)
  (cd /repo && PYTHONPATH=/repo timeout 1800 /venv/bin/python $out/demo.py > $out/demo_without.log 2>&1; echo "exit $?" >> $out/demo_without.log)
  (cd $wt && PYTHONPATH=$wt /venv/bin/python -m pytest -q -p no:cacheprovider --timeout=900 --continue-on-collection-errors compmech > $out/suite_with_change.log 2>&1; echo "exit $?" >> $out/suite_with_change.log)
  echo "$k files: $(git -C $wt diff --stat | tail -1) | with: $(tail -2 $out/demo_with.log | tr '\n' ' ' | cut -c1-120) | without: $(tail -2 $out/demo_without.log | tr '\n' ' ' | cut -c1-120) | suite: $(tail -2 $out/suite_with_change.log | tr '\n' ' ')"
done
