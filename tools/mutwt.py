#!/venv/bin/python
"""tools/mutwt.py <PID[,PID..]> <repo-relative file> <old> <new>
Apply a literal replacement in the scratch worktree /tmp/wt_mut (created on demand from /repo HEAD), run the quick
check(s) against that tree (VERIF_REPO), restore the file.  /repo is never touched."""
import os, subprocess, sys
WT = '/tmp/wt_mut'
if not os.path.isdir(WT):
    subprocess.check_call(['/verif/tools/mkworktree.sh', WT], stdout=subprocess.DEVNULL)
pids, rel, old, new = sys.argv[1:5]
path = os.path.join(WT, rel)
orig = open(path).read()
if old not in orig:
    print('pattern not found'); sys.exit(3)
try:
    open(path, 'w').write(orig.replace(old, new, 1))
    for pid in pids.split(','):
        env = dict(os.environ, VERIF_REPO=WT)
        p = subprocess.run(['/verif/check', pid, 'quick'], env=env, stdout=subprocess.PIPE, stderr=subprocess.STDOUT, text=True)
        lines = p.stdout.strip().splitlines()
        summ = [l for l in lines if l.startswith(pid + ' ')]
        print('%s rc=%d %s' % (pid, p.returncode, summ[-1][:170] if summ else lines[-3:]))
        for l in lines:
            if l.startswith('  idx') or l.startswith('INCONCLUSIVE'):
                print('   ', l[:170]); break
finally:
    open(path, 'w').write(orig)
