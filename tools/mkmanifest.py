#!/venv/bin/python
"""Regenerates MANIFEST.json from the table below (kept valid at all times)."""
import json
import os

HERE = os.path.dirname(os.path.dirname(os.path.abspath(__file__)))

# pid -> (technique, level text, level note, design ref)
CLAIMED = {}


def claim(pid, technique, text, note, ref):
    CLAIMED[pid] = (technique, text, note, ref)


claim('C01', 'icontract post-condition on read_stack judged by an independent lamination-theory oracle; metamorphic relations between real executions',
      'Every read_stack call observed (direct and internal) is compared entry-wise (1e-10 of an absolute-value scale) with an '
      'independent tensor-rotation/through-thickness integration, plus the offset-shift, symmetric-stack, ply-order, mirror and '
      '+90 degree corollaries as relations between further real executions, on thousands of generated stacks per run. '
      'Exploration: holds on what was generated, nothing more.',
      'numpy matrix products and float64 arithmetic of the oracle; generators cover 1..24 plies, 3/6/9-entry materials', '4/C01')

claim('C05', 'recording post-condition on analysis.lb / observation of Panel.lb outputs, judged by a dense LAPACK reference and pencil backward-error residuals',
      'Every returned (multiplier, mode) pair is judged by its normalised backward error on the pencil (K, KG), by zeros on null amplitudes, and - for '
      'sub-critical destabilising loads - against the sorted positive reference multipliers; sparse-vs-dense agreement and the 1/s scaling law are '
      'checked by further real executions. Random symmetric pairs with null rows/cols, all KG sign structures, both solver switches, plus package matrices. Also: ConeCyl.lb (plain and combined load cases), matrices of generated assemblies and stiffened bays, a common unit-system factor 1e-14..1e3; value tolerances from the measured backward error times the eigenvalue condition number.',
      'scipy.linalg.eigh on the active sub-matrices as reference; tolerances scale with eps*||K||/||KG|| and eps*cond(K) (stated in the check)', '4/C05')

claim('C06', 'recording post-condition on analysis.freq / observation of Panel.freq outputs, judged by a dense LAPACK reference, residuals and literal ordering',
      'Every returned (frequency, mode) pair is judged by its backward error on K v = w^2 M v, positivity, zeros on massless amplitudes, literal ascending order '
      '(sort=True), agreement of the lowest frequencies with the reference spectrum, sparse-vs-dense agreement and the 1/sqrt(s) mass-scaling law, on random SPD '
      'pairs with constructed spectra (spread, clustered within 0.1 rad/s, omega~1, repeated) and on package matrices. Also: assembly and bay matrices, pre-stressed Panel.freq (atype 3), wide spectra spanning 5e9 in omega^2, unit-system factors; reference for the lowest frequencies in the inverse form.',
      'scipy.linalg.eigh reference; dense reduced_dof=True raises for every input and is counted as a rejection', '4/C06')

claim('C10', 'ctypes probes on a shared object compiled from the working tree lib sources, judged by exact rational (fractions.Fraction) Bardell algebra',
      'All 30 functions and two derivatives at 64 rational abscissae and several flag sets; the six full-interval integral tables exhaustively over all 900 ordered index '
      'pairs (exact zeros must be 0.0, others within 2e-14 relative of the exact rational); the six sub-interval and five mapped-argument tables over all pairs at sampled '
      'rational arguments incl. degenerate and edge intervals, additivity and I(-1,1)=full table; Gauss-Legendre n=2..64 by exact moments of the returned doubles; '
      'trapezoid/Simpson point sets on random grids.',
      'exact arithmetic of fractions.Fraction; the defining formula in theory/func/bardell/bardell.py; sub-interval/mapped tables are sampled in their real arguments', '4/C10')

claim('C09', 'boundary monitor (recording lists shadowing Analysis.cs/increments) + online trace monitor on the rebound newton_raphson.msg/warn event stream; tangent fault injection',
      'Each run of the real _solver_NR on synthetic problems with pure fext/fint and a scripted (hostile) tangent is observed through two monitors: every reported '
      '(load factor, state) is re-judged with the user callables (equilibrium < absTOL, strictly increasing in (0,1], snapshot digests unchanged, no aliasing); the '
      'parsed event stream is checked against the driver contract (append only after a convergence event at iteration>=2 with logged Rmax<absTOL, next attempt '
      'after a failure strictly between last reported and failed factor, increment <= maxInc, iterations <= maxNumIter+1) and bounded progress is enforced by '
      'call/log budgets derived from the settings (exceeding them is the violation that stands for non-termination). Thousands of distinct outcome words per run.',
      'termination is restated as a step bound computed from (initialInc, minInc, maxInc); fext/fint purity of the synthetic problems', '4/C09')

claim('C02', 'reference-model monitor on Panel.calc_k0: entry-wise comparison with an energy Hessian obtained by numpy Gauss quadrature of the package\'s own strain field; metamorphic relations (tiling, pre-load) between real executions',
      'Every entry of every returned k0 is compared (1e-10 of an absolute-value scale) with sum_p w_p B(p)^T F B(p), B recovered from Panel.strain on unit amplitudes '
      '(ctypes basis + strain table for the w-only and conical models, radius frozen per section as the kernel does), F from the independent lamination oracle; exact symmetry, '
      'zero outside the placed block, PSD, sub-interval tiling and the N_cte pre-load clause are further real executions. Hundreds to thousands of random panels per run over all four models. Also: the same object re-judged after its definition changed (a, b, edge flags, m<->n, ply thicknesses, angles, offset, radius, cone angle), sparse constant pre-loads, panels with force_orthotropic_laminate.',
      'strain recovery kernel cfstrain (itself judged by C11) or the ctypes basis (judged exactly by C10); conical strain table taken from the repository theory notebook (twist term coefficient 1)', '4/C02')
claim('C03', 'reference-model monitor on Panel.calc_kG0 (analytic and state-based paths): entry-wise comparison with the pre-stress-work Hessian by quadrature of recovered slopes',
      'kG0 from fkG0/fkG0y1y2 is compared entry-wise with sum_p w_p G^T N G (G = recovered slopes) for all load triples incl. shear/tension/mixed sign, all four models, sub-intervals and '
      'placement; u/v rows must be exactly zero; linearity by three unit-load executions. The state-based fkG_num matrix is compared with the same form using N = A eps + B kappa computed by '
      'the oracle at every integration point (NLgeom on/off, orders 2..64, uniform vs per-point table, uniform-membrane states reproducing the constant-load matrix). Also: square and non-square Gauss grids on the table paths, state vectors in several memory layouts, sparse load triples.',
      'Panel.uvw / Panel.strain recovery kernels (judged by C11); numpy leggauss points equal the package table to 1e-14 (C10)', '4/C03')

claim('C04', 'reference-model monitor on Panel.calc_kM: entry-wise comparison with the kinetic-energy Hessian by quadrature of the recovered displacement field; conservation (total mass) and invariance (reference surface) relations on real executions',
      'Every entry of every returned kM is compared with sum_p w_p U(p)^T J U(p) (U = u,v,w,phix,phiy recovered per unit amplitude; J the 5x5 inertia form with first moment mu*h*d and '
      'second moment mu*h*(d^2+h^2/12)) for all four models, sub-intervals, placement and offsets of both signs; symmetry/PSD/PD; rigid translations of unrestrained panels must carry '
      'mu*h*area; and the non-rigid spectrum of a free homogeneous plate from the real K(d), M(d) must not move with d. Also: total mass of stiffened bays with per-stiffener densities, and the mass contribution of 2-D stiffeners against their panels\' own mass matrices at the documented amplitude ranges.',
      'sign of the first-moment coupling follows the laminate convention (plies at z=+offset, U=u-z*w,x); the invariance clause is its convention-free witness', '4/C04')

claim('C19', 'reference-model monitor on Panel.calc_kA / calc_cA / StiffPanelBay.calc_kA: entry-wise comparison with quadrature of the stated bilinear forms on recovered w and slopes; structure, linearity, axis-exchange and Mach-route relations on real executions',
      'Both triangles of every returned kA are compared with beta*int(w_A dw_B/dflow) - gamma*int(w_A w_B) (w restrained on the flow edges), cA with -aeromu*int(w_A w_B)*1j; zero on u/v; beta part skew, gamma '
      'and damping parts symmetric (beta and gamma separated by two executions); linearity; flow-y vs flow-x on the axis-exchanged panel; Mach/density/speed route vs explicit coefficients; the bay matrix vs its first panel and vs the stated form. Also: panels placed inside a larger matrix (kA and cA), bays with flow along y.',
      'gamma exercised for flow x only (the flow-y kernel has no curvature term; the statement does not fix that case); control group with w free on a flow edge judged on structure/linearity only', '4/C19')

claim('C11', 'reference-model monitor on Panel / PanelAssembly / StiffPanelBay field recovery: every returned value compared with a numpy evaluation of the Ritz series from ctypes basis values; bit-exact invariance under permutation, batching and thread count',
      'uvw, phix/phiy, the six strains (NLterms on and off as requested) and the six stress resultants returned by the real methods are compared point by point (1e-11 of sum|c_k||basis_k|) with '
      'the series and the Donnell relations evaluated independently; stress against F times the strains of the same request; shuffled / one-at-a-time / other-thread-count executions must be bit-identical; '
      'assembly groups and bay skin/stiffener regions must use their own slice of the amplitude vector (stiffeners of all three kinds in mixed insertion order). Also: amplitude vectors and 2-D point arrays in several memory layouts, assembly stress with different laminates per group.',
      'ctypes basis functions (judged exactly by C10); PanelAssembly fields are evaluated on its default linspace grids', '4/C11')

claim('C08', 'polynomial-exact differencing monitor on Panel/PanelAssembly calc_fint and calc_kT: 5-point stencil of the cubic internal force gives its directional derivative exactly; exact closed-path work',
      'At generated deformed states (w up to 5 thicknesses, B-coupled/offset laminates, random flags, uniform and per-point tables, plate and cylindrical models, assemblies with all five '
      'connection kinds in shuffled order) the monitor checks fint(0)=0, the linear coefficient of t->fint(t c) equals K0 c, kT(c) dc equals the exact stencil derivative of fint for several '
      'directions, kT symmetric, kT(0)=K0, zero work around random closed polygons (exact Gauss per edge), consistency of the discretised pair at reduced Gauss orders, and that the assembly adds k0_conn*c. Also: states with exactly quiet parts (membrane-only, bending-only, a quiet component of an assembly), memory layouts of the state vector, forced-orthotropic panels.',
      'fint is a cubic polynomial of the amplitudes (verified per case by comparing stencils at h and h/2)', '4/C08')

claim('C07', 'recording post-conditions on sparse.solve / analysis.static (all bindings, so Panel.static is observed) judged by residuals; calc_fext of panels, assemblies and bays judged by virtual work through the displacement kernel (a different kernel from the load-vector kernel)',
      'For generated force sets (interior/edge/corner, constant and incrementable, load factors in [0,2]) the product fext.c is compared for several random c with sum f.(u,v,w) taken from the package\'s own uvw / uvw_skin / '
      'uvw_stiffener at the force points, for single panels of all four models (with placement), assemblies of unequal panels in shuffled order and bays with forces on skin, base and flange; inc-linearity and fext(0)=constant part by '
      'further executions; every observed solve call is judged by backward error on active amplitudes and zeros on null ones; linear dependence on the loads. Also: load and stiffness magnitudes over 20 decades, repeated load positions, the same panel re-judged after redefinition, bays with several loaded / unloaded stiffeners.',
      'Panel.uvw kernels (judged by C11); static clauses apply to non-singular K (restrained panels / SPD random systems)', '4/C07')

claim('C12', 'reference-model monitor on PanelAssembly.get_k0_conn and the fkC* kernels: entry-wise comparison with quadrature of the interface mismatch energy built from each panel\'s recovered fields; convention-free consequences on real executions',
      'For all five connection kinds, interface positions at edges and in the interior, unequal panels (size, orders, laminates, flags), p1 before/after p2 with unrelated panels in between, the returned matrix is compared entry-wise '
      'with kt*sum w Jt^T Jt + kr*sum w Jr^T Jr (J = jump of the recovered displacement / slope fields); symmetry, PSD, locality, zero energy for common rigid translations of unrestrained panels, proportionality to (kt,kr) over ten decades, '
      'and symmetry / degree-1 homogeneity of calc_kt_kr. Also: the connections the stiffener classes build themselves (BladeStiff2D skin-flange, TStiff2D skin-base strip and base-flange line at arbitrary line positions).',
      'jump conventions as documented in connections/__init__.py (listed in the evidence assumptions); Panel.uvw kernels (C11)', '4/C12')

claim('C13', 'differential execution: assembled matrices of the real PanelAssembly / StiffPanelBay against stand-alone component matrices from separately constructed objects placed by the monitor; split-skin and one-stiffener-at-a-time bays',
      'Assemblies of 2..6 unequal panels in shuffled order: k0 (+connection matrix), kG0, kM, fext and size equal the placed stand-alone results; bays with the skin cut at 1..4 random positions equal the uncut bay and the '
      'full-width analytic panel (k0, kG0, kM); bays with 1..3 stiffeners of the three kinds in every insertion order: K(all) - K(skin) equals the sum of single-stiffener contributions shifted to the documented block offsets, '
      'each stiffness / mass contribution symmetric and PSD. Also: sparse pre-load triples incl. pure shear, a pre-load of its own on every skin strip, force vectors with both force kinds at a load factor.',
      'documented block order (skin, BladeStiff2D flanges, TStiff2D base+flange, each in insertion order); PSD judged against eps*||K||', '4/C13')

claim('C14', 'differential execution of equivalent descriptions: pairs of real executions whose matrices or eigenvalues must coincide or be related by a known factor',
      'Six relations in rotation over random inputs: conical panel at alpha=0 vs cylindrical panel (k0,kG0,kM, sub-intervals); cylindrical panel tending to the plate as r/b grows 1e2..1e7 (bounded restatement: 10x..100x per decade once '
      'r/b>=1e5, within 1e-4 at 1e7; kG0 and kM radius independent); w-only plate vs the w block of the full plate (k0,kG0,kM,kA,cA); numerically integrated k0 at c=0 vs analytic k0; x<->y exchange (buckling multipliers and frequencies); '
      'similarity scaling of lengths, moduli and density (line loads x e*s, frequencies x sqrt(e/q)/s).',
      'eigenvalues by scipy.linalg.eigh on active sub-matrices; "tends to" restated as a decade-wise rate and a bound at r/b=1e7', '4/C14')

claim('C15', 'observation of the whole pipeline (laminate -> k0/kG0/kM -> package lb/freq or reference eigensolver) at increasing series orders, judged by min-max monotonicity and by classical closed-form values',
      'Closed-form part: simply supported specially orthotropic plates over aspect ratios 0.2..5 and load ratios 0..3; the lowest Ritz buckling loads and frequencies at m=n=6..16 must never fall below the rank-matched '
      'double-sine closed forms (rotary inertia included), the lowest-mode error must decrease with the order and be below 1e-6 / 1e-3 at 16 terms (<=3 / <=6 half-waves). Monotonicity part: arbitrary laminates, all four models, '
      'restrained flag patterns: adding terms in either direction never raises any of the six lowest multipliers / frequencies.',
      'closed forms evaluated with the independent lamination oracle; one-sided tolerance 1e-9 + 50 eps cond(K)', '4/C15')

claim('C16', 'reference-model monitor on ConeCyl linear matrices: energy Hessian by quadrature of ConeCyl.strain (odd symmetrisation) on the free amplitudes, convergence monitor in the number of meridian sections for cones, differential execution of kernel pairs',
      'Classical models: k0 minus the real edge-restraint matrix is compared entry-wise with the surface strain-energy Hessian (cylinders exact; cones through s = 10,20,40,80 with s^-2 rate and Richardson limit); all models: symmetry, PSD, partition book-keeping; '
      'fk0/fkG0 at alpha=0 vs fk0_cyl/fkG0_cyl called directly with the same F; iso short-cut models vs general models with an isotropic laminate; kG0 linear in (Fc,P,T) and combined-load split. Also: the elastic edge-restraint part against the edge spring energy with all constants distinct, forced-orthotropic and F_reuse laminates, the axial load given as a top line load.',
      'ConeCyl.strain of the matching commons module (iso models borrow the general model field); FSDT models are outside the energy clause as in the statement', '4/C16')

claim('C18', 'monitors on the real ConeCyl: geometry identities after _rebuild, inverse book-keeping of exclude_dofs_matrix/calc_full_c on random sparse matrices, calc_fext judged by virtual work against ConeCyl.uvw (quadrature of the recovered field), recorder on sparse.solve for the static solution',
      'Derived radii/height/meridian length from every admissible pair of inputs; partition blocks (kuu, kuk, kku, kkk) and re-insertion for every excluded-dof set with random matrices and vectors; fext.c_u against the work of point forces, axial load (edge circle), pressure '
      '(surface quadrature) and torque on the reported displacement field with the prescribed-displacement columns moved to the right-hand side; affine dependence on the load factor and fext(0) = constant loads; the observed solve call of static() must use k0uu and calc_fext(1) and satisfy K_uu c_u = f_u. Also: load asymmetry (MLA / xiLA) judged by ring statics.',
      'torque judged for bc1/bc2 variants only (point-force and line-load readings coincide there); FSDT pressure is a rejection (NotImplementedError)', '4/C18')

claim('C17', 'polynomial-exact differencing monitor on ConeCyl.calc_fint / calc_kT with identical integration settings; separate executions for thread counts and integration rules',
      'For the 12 non-linear-capable shell models, cylinders and cones, trapezoid and Simpson rules, 1..8 threads: fint(0)=0, the linear coefficient of t->fint(t c) equals k0uu c, kTuu symmetric, kTuu dc equals the exact 5-point-stencil derivative of fint for random directions, '
      'fint and kT agree across thread counts to 1e-11 and repeat bit-exactly at a fixed count. Also: load factor with prescribed shortening / twist, imperfection coefficients (three families), the zero free state, quiet-part states, memory layouts; directional defect-model classifier for large systems.',
      'fint polynomial of degree <= 4 in the amplitudes (checked per case); imperfection coefficients c0 are not exercised (stated in DESIGN section 8)', '4/C17')

claim('C20', 'call-history recorder: random words over the public evaluation methods executed on one object, every call compared with the same call made first on a fresh identical object; digests of caller-owned arrays before/after; repetition under varying thread counts',
      'Panels (flat/cylindrical, with loads, forces, aerodynamic data), assemblies with connections, stiffened bays with all stiffener kinds and shells of several models; histories of 3..14 calls with repetitions over stiffness / geometric / mass / aerodynamic matrices, load and internal '
      'force vectors, tangent, buckling / frequency / static analyses and field recovery. A refusal or a different result (bit-exact; spectra at 1e-8) after some history is a violation, as is a refusal on a fresh object or a modified caller array; the field kernels are repeated under 1..16 threads and must be bit-identical.',
      'references from fresh objects in the same process; ARPACK-based spectra compared numerically; memory-level races are additionally exercised by the sanitizer tier (DESIGN section 5)', '4/C20')

ALL = ['C%02d' % i for i in range(1, 21)]
PENDING_REASON = 'check not built yet in this round (runtime-monitoring plan in DESIGN.md section 4); will be claimed once its monitor runs silent on the unchanged tree'


# additions of the later seeded-change rounds (first-call order, left-over attributes, earlier lives of the objects)
EXTRA = {
    'C02': ' Objects carry left-over reference loads, point forces and flow parameters of earlier uses in half of the cases.',
    'C03': ' PanelAssembly.calc_kG0(c) with per-panel state magnitudes down to 1e-22 (no panel may be skipped); 40% of the objects are fresh when kG0 is first asked; left-over forces / flow parameters.',
    'C04': ' 40% of the objects are fresh when the mass matrix is first asked; left-over loads, forces and flow parameters on the object.',
    'C05': ' Spring-network stiffness matrices with exactly cancelling columns; Panel.lb with sub-critical reference loads whose reversal is super-critical (negative multipliers inside (-1,0)).',
    'C06': ' Spring-network stiffness matrices with exactly cancelling columns; plain Panel.freq with left-over loads / forces / flow parameters on the object.',
    'C08': ' Fresh objects whose first evaluation is an internal force at a deformed state; reference loads, forces and flow parameters left on the object; kT at exactly zero state.',
    'C09': ' 30% of the problems have an internal force that itself depends on the load factor (displacement control).',
    'C11': ' 40% fresh objects (field queries are the first calls); stress judged with the laminate matrix of the description, not of the object; left-over attributes.',
    'C12': ' Penalty constants on fresh related pairs (same lay-up, other materials / offset / thicknesses; per-ply and uniform forms): symmetric, and equal to the constants after the panels evaluated their stiffness.',
    'C14': ' Numerical kernel asked first on a fresh object and on an object whose laminate was reassigned.',
    'C15': ' Closed-form part also with per-ply thicknesses and materials mirrored about the mid-plane.',
    'C16': ' 40% of the shells in the energy and edge cases have an earlier life (other angle / length / radius, rebuilt or evaluated) before the geometry under test is assigned.',
    'C17': ' 35% of the shells are fresh when the internal force is first asked.',
    'C18': ' Point forces of an evaluated shell replaced by as many others or edited in place.',
    'C19': ' kA asked first on a fresh object; the same object re-judged after a w edge flag, a dimension, the radius or the series orders were reassigned.',
}
for _pid, _t in EXTRA.items():
    _tech, _text, _note, _ref = CLAIMED[_pid]
    CLAIMED[_pid] = (_tech, _text + _t, _note, _ref)


def main():
    checks = []
    for pid in ALL:
        if pid not in CLAIMED:
            continue
        tech, text, note, ref = CLAIMED[pid]
        checks.append({
            'property_id': pid,
            'quick_cmd': './check %s quick' % pid,
            'thorough_cmd': './check %s thorough' % pid,
            'evidence_file': 'evidence/%s.json' % pid,
            'replay_cmd_template': './check %s --replay {path}' % pid,
            'engine': 'vp',
            'level_claimed': {'category': 'exploration', 'text': text, 'design_ref': 'DESIGN.md section ' + ref},
            'level_note': note,
            'technique': tech,
        })
    man = {
        'version': 1,
        'setup_cmd': './check --setup',
        'hooks': {
            'guard': 'COMPMECH_VERIF',
            'enable': 'no source hooks are needed: monitors are attached from the harness (icontract post-conditions, rebinding of module-level names, ctypes); the guard name is reserved and unused by the repository',
            'baseline_off_cmd': 'cd /repo && env -u COMPMECH_VERIF /venv/bin/python -m pytest -ra -q -p no:cacheprovider --timeout=900 --continue-on-collection-errors',
            'source_commits': [],
            'add_only': True,
        },
        'engines': [{'name': 'vp', 'path': 'vp/', 'serves_properties': sorted(CLAIMED),
                     'kind_free_text': 'runtime monitors + reference oracles over seeded hostile workloads, sharded over worker subprocesses; '
                                       'native code rebuilt from the working tree C sources into an overlay when it differs from the pinned manifest'}],
        'checks': checks,
        'not_applicable': [{'property_id': p, 'reason': PENDING_REASON} for p in ALL if p not in CLAIMED],
        'notes': 'Exit codes: 0 held on what was observed (KNOWN-FINDING lines possible), 1 VIOLATION, 2 INCONCLUSIVE (monitor not reached / watchdog / build failure). '
                 'VERIF_SEED and VERIF_TIER are honoured. Known findings: known_findings.json.',
    }
    with open(os.path.join(HERE, 'MANIFEST.json'), 'w') as f:
        json.dump(man, f, indent=1)
    print('MANIFEST.json: %d claimed, %d not yet' % (len(checks), len(man['not_applicable'])))


if __name__ == '__main__':
    main()
