#!/venv/bin/python
"""tools/keepseed.py <name> <property> <worktree> <outdir> "<needs>" "<caught by...>"  - store a confirmed seeded change under seeded/<name>/"""
import json, os, shutil, subprocess, sys
name, prop, wt, outdir, needs, caught = sys.argv[1:7]
dst = os.path.join('/verif/seeded', name)
os.makedirs(dst, exist_ok=True)
diff = subprocess.check_output(['git', '-C', wt, 'diff']).decode()
open(os.path.join(dst, 'patch.diff'), 'w').write(diff)
shutil.copy(os.path.join(outdir, 'demo.py'), os.path.join(dst, 'demo.py'))
if os.path.exists(os.path.join(outdir, 'notes.md')):
    shutil.copy(os.path.join(outdir, 'notes.md'), os.path.join(dst, 'notes.md'))
def tail(p, n=2):
    return open(p).read().strip().splitlines()[-n:] if os.path.exists(p) else None
meta = {
    'property': prop,
    'origin': 'independent sub-agent given only the property text and a scratch worktree',
    'base_commit': subprocess.check_output(['git', '-C', wt, 'rev-parse', '--short', 'HEAD']).decode().strip(),
    'needs_to_manifest': needs,
    'confirmed_by_me': {
        'existing_suite_with_change': tail(os.path.join(outdir, 'suite_with_change.log'), 3),
        'demo_with_change': tail(os.path.join(outdir, 'demo_with.log'), 1),
        'demo_on_clean_tree': tail(os.path.join(outdir, 'demo_without.log'), 1),
    },
    'caught_by': caught,
    'how_to_apply': 'git -C /repo apply /verif/seeded/%s/patch.diff ; run checks ; git -C /repo checkout -- .' % name,
}
json.dump(meta, open(os.path.join(dst, 'meta.json'), 'w'), indent=1)
print('kept', dst)
