"""sys.meta_path finder that serves rebuilt extension modules from an overlay
directory; every other module is imported from /repo as usual."""
import importlib.abc
import importlib.machinery
import importlib.util
import os
import sys

from . import build


class OverlayFinder(importlib.abc.MetaPathFinder):
    def __init__(self, roots):
        self.roots = roots
        self.served = []

    def find_spec(self, fullname, path=None, target=None):
        if not fullname.startswith('compmech.'):
            return None
        rel = os.path.join(*fullname.split('.')) + build.EXT_SUFFIX
        for root in self.roots:
            p = os.path.join(root, rel)
            if os.path.exists(p):
                loader = importlib.machinery.ExtensionFileLoader(fullname, p)
                self.served.append(fullname)
                return importlib.util.spec_from_file_location(fullname, p, loader=loader)
        return None


_installed = None


def install(extra_roots=()):
    """Make sure native code corresponds to the working tree; install finder.
    Returns build info (dict)."""
    global _installed
    if _installed is not None:
        return _installed
    if build.REPO not in sys.path:
        sys.path.insert(0, build.REPO)
    odir, info = build.ensure(verbose=True)
    roots = list(extra_roots)
    env_roots = os.environ.get('VERIF_OVERLAY_EXTRA')
    if env_roots:
        roots += env_roots.split(':')
    if odir:
        roots.append(odir)
    if roots:
        f = OverlayFinder(roots)
        sys.meta_path.insert(0, f)
        info['finder'] = f
    _installed = info
    return info
