"""C03 - geometric stiffness = Hessian of the pre-stress work (constant loads
or resultants recovered from a Ritz state).

Monitor: matrices returned by the real Panel.calc_kG0 (analytic fkG0/fkG0y1y2
and numerical fkG_num paths) judged by O2 with the slope recovery of
Panel.uvw and, for the state-based path, resultants N = A eps + B kappa
computed by the oracle at the same Gauss points from Panel.strain."""
import numpy as np

from .. import gen
from ..core import Case, entrywise_excess
from ..oracles import clt, energy, series

TOL = 1e-10


def plan(tier):
    n = 400 if tier == 'quick' else 6000
    return dict(n_cases=n, shards=16, min_nontrivial=n // 3,
                min_tags={'path:analytic': n // 4, 'path:state': n // 6, 'clause:uniform_state': n // 30,
                          'clause:per_point_table': n // 40, 'clause:varying_table': n // 40, 'model:kpanel': n // 30,
                          'obj:assembly': n // 12, 'state:tiny': n // 24, 'order:fresh': n // 20},
                watchdog_s=1800 if tier == 'quick' else 10000,
                rule='panels as in C02; analytic path: random real (Nxx,Nyy,Nxy) of all signs incl. pure shear/tension, sub-intervals, '
                     'placement; state path (plate, cpanel): random Ritz states, NLgeom on/off, Gauss orders 2..%d, uniform 6x6 vs '
                     'per-point (nx,ny,6,6) table, uniform-membrane states; every 8th case an assembly of 2-4 panels through '
                     'PanelAssembly.calc_kG0(c) with per-panel state magnitudes 1e-22..1 of the thickness scale; non-trivial = Nxy != 0 or mixed-sign loads or state-based; '
                     'distinct = hash of panel + loads/state' % (16 if tier == 'quick' else 64),
                assumptions=['entry-wise tolerance 1e-10 (analytic) / 1e-9 (state-based) of the absolute-value scale',
                             'state-based oracle evaluates N at numpy leggauss points of the same order the call requested'])


def slope_basis(p, d, xs, ys):
    """G[2, npts, size] = (phix, phiy) = (-w,x, -w,y) of each unit amplitude (signs cancel in the form)"""
    if d['model'] == 'plate_w':
        U = series.disp_U(p, 2 * xs / p.a - 1., 2 * ys / p.b - 1., p.a, p.b, num=1)
    else:
        U = energy.disp_basis(p, xs, ys)
    return U[3:5]


def state_oracle(p, F, SF, cp, nx, ny, NLgeom, spt=None):
    """Hessian of the pre-stress work with N = A eps + B kappa of the state `cp` (panel's own amplitudes) at the numpy Gauss
    points of the requested order; second return value: the matrix of absolute-value sums (round-off scale)"""
    xs, ys, w = energy.gauss_grid(p, nx, ny)
    st = p.strain(cp, xs=xs, ys=ys, NLterms=False)
    E = np.array([st[k].ravel() for k in energy.STRAIN_KEYS])      # [6, npts]
    if NLgeom:
        uvw = p.uvw(cp, xs=xs, ys=ys)
        wx = -np.asarray(uvw[3]).ravel(); wy = -np.asarray(uvw[4]).ravel()
        E[0] += 0.5 * wx * wx
        E[1] += 0.5 * wy * wy
        E[2] += wx * wy
    Nres = F[:3, :] @ E            # [3, npts]
    Sres = SF[:3, :] @ np.abs(E)
    if spt is not None:
        Nres = Nres * spt.ravel()[None, :]     # gauss_grid orders the points as [ix*ny + iy], like Fnxny[ptx, pty]
        Sres = Sres * spt.ravel()[None, :]      # SF: absolute-value scale of F (B of a symmetric stack is cancellation noise)
    Npts = np.zeros((xs.size, 2, 2)); Spts = np.zeros((xs.size, 2, 2))
    Npts[:, 0, 0] = Nres[0]; Npts[:, 1, 1] = Nres[1]; Npts[:, 0, 1] = Npts[:, 1, 0] = Nres[2]
    Spts[:, 0, 0] = Sres[0]; Spts[:, 1, 1] = Sres[1]; Spts[:, 0, 1] = Spts[:, 1, 0] = Sres[2]
    G = energy.disp_basis(p, xs, ys)[3:5]
    Ko, _ = energy.quad_form(G, Npts, w)
    _, S = energy.quad_form(G, Spts, w)
    return Ko, S


def case_assembly(rng, tier):
    """PanelAssembly.calc_kG0(c): every panel's block is the state-based matrix of THAT panel's part of the state, whatever its
    magnitude (SI states of unit loads are 1e-9 and smaller; one panel of an assembly may be almost unloaded)"""
    ad = gen.assembly_desc(rng, npan=int(rng.integers(2, 5)), mmax=4 if tier == 'quick' else 6)
    c = Case({'obj': 'assembly', 'assembly': ad})
    c.tag('path:state', 'obj:assembly')
    c.nontrivial = True
    try:
        ass, ps, conn = gen.build_assembly(ad)
        size = ass.get_size()
        ass.calc_k0(silent=True)
    except Exception as e:
        return c.reject('%s building assembly: %s' % (type(e).__name__, str(e)[:100]))
    cfull = np.zeros(size)
    scales = []
    for p, d in zip(ps, ad['panels']):
        t = sum(d['lam']['plyts'])
        sc = float(10 ** rng.uniform(-12, 0)) if rng.random() < 0.6 else 1.0
        if rng.random() < 0.1:
            sc = 0.0
        scales.append(sc)
        cp = rng.normal(size=p.col_end - p.col_start)
        cp[2::3] *= t * float(rng.uniform(0.1, 3))
        cp[0::3] *= t * 0.05
        cp[1::3] *= t * 0.05
        cfull[p.col_start:p.col_end] = cp * sc
    if rng.random() < 0.3:
        g = float(10 ** rng.uniform(-10, -3))
        cfull *= g
        scales = [s_ * g for s_ in scales]
    c.desc['state_scales'] = scales
    c.tag('state:tiny' if any(0 < s_ < 1e-6 for s_ in scales) else 'state:ordinary')
    cbefore = cfull.copy()
    try:
        KG = ass.calc_kG0(c=cfull, silent=True)
    except Exception as e:
        return c.reject('%s in PanelAssembly.calc_kG0(c): %s' % (type(e).__name__, str(e)[:100]))
    c.hit('calc_kG0(c)')
    c.hit('assembly.calc_kG0(c)')
    c.expect('state vector not modified', np.array_equal(cfull, cbefore))
    KG = np.asarray(KG.toarray())
    c.expect('exactly symmetric', np.array_equal(KG, KG.T))
    mask = np.zeros((size, size), bool)
    for p, d in zip(ps, ad['panels']):
        lam = d['lam']
        F, SF = clt.ABD6(lam['stack'], lam['plyts'], lam['laminaprops'], lam['offset'], force_ortho=bool(lam.get('force_ortho')))
        sl = slice(p.col_start, p.col_end)
        mask[sl, sl] = True
        blk = KG[sl, sl]
        Ko, S = state_oracle(p, F, SF, cfull[sl], p.nx, p.ny, False)
        ratio, ij = entrywise_excess(blk, Ko, S, 1e-9)
        c.judge('assembly: each panel block of kG(c) uses N = A eps + B kappa of that panel\'s part of the state', ratio * 1e-9, 1e-9,
                data={'entry': ij, 'code': blk[ij], 'oracle': Ko[ij], 'scale': S[ij], 'panel': ad['panels'].index(d)})
    c.expect('assembly: kG(c) is zero outside the panels\' own blocks', not KG[~mask].any())
    # linear in the state (no quadratic slope terms requested): halving the state halves the matrix, whatever its magnitude
    K2 = np.asarray(ass.calc_kG0(c=0.5 * cfull, silent=True).toarray())
    den = np.abs(KG) + 1e-9 * np.abs(KG).max() + 1e-300
    c.judge('assembly: kG(c/2) = kG(c)/2', float((np.abs(K2 - 0.5 * KG) / den).max()), 1e-9)
    return c


def run_case(rng, tier, idx):
    if idx % 8 == 5:
        return case_assembly(rng, tier)
    state_path = rng.random() < 0.4
    if state_path:
        model = str(rng.choice(['plate', 'cpanel']))
        d = gen.panel_desc(rng, model=model, mmax=6, sub=False)
    else:
        d = gen.panel_desc(rng, mmax=8)
    c = Case({'panel': d})
    c.tag('model:' + d['model'], 'path:state' if state_path else 'path:analytic')
    p = gen.build_panel(d)
    for k_ in gen.leftovers(rng, p, loads=False):
        c.tag('left:' + k_)
    num = 1 if d['model'] == 'plate_w' else 3
    size_p = num * d['m'] * d['n']
    row0 = d['row0']
    if not state_path:
        kind = str(rng.choice(['random', 'shear', 'tension', 'mixed', 'uniaxial']))
        N = rng.normal(size=3) * 10 ** rng.uniform(0, 5)
        if kind == 'shear':
            N[0] = N[1] = 0.
        elif kind == 'tension':
            N = np.abs(N); N[2] = 0.
        elif kind == 'uniaxial':
            N[1] = N[2] = 0.
        elif kind == 'mixed':
            N[0] = -abs(N[0]); N[1] = abs(N[1])
        N = [float(x) for x in N]
        c.desc['N'] = N
        c.tag('load:' + kind)
        c.nontrivial = kind != 'uniaxial'
        # a resultant that is zero is either assigned as 0.0 or left at the attribute's default (None): the same load
        unset = [bool(v == 0.0 and rng.random() < 0.5) for v in N]
        p.Nxx, p.Nyy, p.Nxy = [None if u else v for u, v in zip(unset, N)]
        if any(unset):
            c.tag('load:zero_components_left_unset')
        fresh = bool(rng.random() < 0.4)
        c.tag('order:fresh' if fresh else 'order:k0_first')
        try:
            if not fresh:
                p.calc_k0(silent=True)
            KG = p.calc_kG0(size=d['size'], row0=row0, col0=row0, silent=True)
        except Exception as e:
            return c.reject('%s in calc_kG0: %s' % (type(e).__name__, str(e)[:100]))
        c.hit('calc_kG0')
        blk, outside = energy.block(KG, row0, size_p)
        c.expect('zero outside the panel block', outside == 0.0)
        c.expect('exactly symmetric', np.array_equal(blk, blk.T))
        if num == 3:
            uv = np.ones(size_p, bool); uv[2::3] = False
            c.expect('touches only out-of-plane amplitudes', not blk[uv, :].any() and not blk[:, uv].any())
        Nm = np.array([[N[0], N[2]], [N[2], N[1]]])
        if d['model'] == 'kpanel':
            from ..oracles import conical
            Ko, S = conical.kG0_oracle(p, N[0], N[1], N[2])
            tol = 1e-9 * gen.subinterval_amplification(d)
        else:
            nx, ny = energy.exact_orders(p)
            xs, ys, w = energy.gauss_grid(p, nx, ny)
            G = slope_basis(p, d, xs, ys)
            Ko, S = energy.quad_form(G, Nm, w)
            tol = TOL * gen.subinterval_amplification(d)
        ratio, ij = entrywise_excess(blk, Ko, S, tol)
        c.judge('kG0 equals the Hessian of the pre-stress work', ratio * tol, tol,
                data={'entry': ij, 'code': blk[ij], 'oracle': Ko[ij], 'scale': S[ij]})
        # a sibling object in the same process: same geometry, loads and flags, series orders exchanged (same matrix size) - its
        # matrix is that of ITS series (nothing computed for the first object may be handed to the second)
        if d['m'] != d['n'] and d['model'] != 'kpanel' and rng.random() < 0.4:
            c.tag('clause:sibling')
            d2 = dict(d); d2['m'], d2['n'] = d['n'], d['m']
            p2 = gen.build_panel(d2)
            p2.Nxx, p2.Nyy, p2.Nxy = N
            p2.calc_k0(silent=True)
            b2, _ = energy.block(p2.calc_kG0(size=d['size'], row0=row0, col0=row0, silent=True), row0, size_p)
            nx2, ny2 = energy.exact_orders(p2)
            xs2, ys2, w2 = energy.gauss_grid(p2, nx2, ny2)
            Ko2, S2 = energy.quad_form(slope_basis(p2, d2, xs2, ys2), Nm, w2)
            tol2 = TOL * gen.subinterval_amplification(d2)
            ratio, ij = entrywise_excess(b2, Ko2, S2, tol2)
            c.judge('kG0 of a sibling panel with exchanged series orders is that of its own series', ratio * tol2, tol2,
                    data={'orders': [d2['m'], d2['n']]})
        # linearity in the three resultants: three unit-load executions
        if rng.random() < 0.5:
            acc = np.zeros_like(blk)
            for k in range(3):
                e = [0., 0., 0.]; e[k] = 1.
                p.Nxx, p.Nyy, p.Nxy = e
                Gk = p.calc_kG0(size=d['size'], row0=row0, col0=row0, silent=True)
                bk, _ = energy.block(Gk, row0, size_p)
                acc += N[k] * bk
            ratio, ij = entrywise_excess(blk, acc, S, 1e-12)
            c.judge('linear in (Nxx,Nyy,Nxy)', ratio * 1e-12, 1e-12)
        return c

    # ---------------- state-based path (fkG_num) ----------------
    c.nontrivial = True
    lam = d['lam']
    F, SF = clt.ABD6(lam['stack'], lam['plyts'], lam['laminaprops'], lam['offset'], force_ortho=bool(lam.get('force_ortho')))
    nmaxg = 16 if tier == 'quick' else 64
    nx = int(rng.integers(2, nmaxg + 1)); ny = int(rng.integers(2, nmaxg + 1))
    NLgeom = bool(rng.random() < 0.5)
    mode = str(rng.choice(['random_state', 'random_state', 'uniform_state', 'per_point_table', 'varying_table']))
    if mode in ('per_point_table', 'varying_table') and rng.random() < 0.5:
        ny = nx          # square grids: a table indexed [iy, ix] instead of [ix, iy] has the right shape there
    c.desc.update(nx=nx, ny=ny, NLgeom=NLgeom, mode=mode)
    c.tag('mode:' + mode, 'NLgeom' if NLgeom else 'lin')
    size = d['size']
    # 40% of the states without a per-point table: kG0(c) is the first thing ever asked of the object (state from elsewhere)
    fresh = mode in ('random_state', 'uniform_state') and rng.random() < 0.4
    c.tag('order:fresh' if fresh else 'order:k0_first')
    try:
        if not fresh:
            p.calc_k0(size=size, row0=row0, col0=row0, silent=True)
    except Exception as e:
        return c.reject('%s in calc_k0: %s' % (type(e).__name__, str(e)[:100]))
    t = sum(lam['plyts'])
    cfull = np.zeros(size)
    if mode == 'uniform_state':
        c.tag('clause:uniform_state')
        # unrestrained in-plane field u = e0x*x, v = e0y*y + g0*x, w = 0 needs all u,v flags = 1 and m,n >= 4
        dd = dict(d); dd['flags'] = gen.flags(rng, 'free'); dd['m'] = max(d['m'], 4); dd['n'] = max(d['n'], 4)
        if dd['model'] == 'cpanel':
            dd['model'] = 'plate'; dd.pop('r', None)
        own = 3 * dd['m'] * dd['n']
        dd['row0'] = row0 = 0; dd['size'] = size = own
        d = dd; c.desc['panel'] = d
        p = gen.build_panel(d)
        if not fresh:
            p.calc_k0(silent=True)
        size_p = own
        e0 = rng.normal(size=3) * 1e-3
        # least-squares projection of the linear field on the series (exactly representable)
        gx, _ = np.polynomial.legendre.leggauss(8)
        XI, ET = np.meshgrid(gx, gx, indexing='ij')
        U = series.disp_U(p, XI.ravel(), ET.ravel(), p.a, p.b, num=3)
        x = (XI.ravel() + 1) * p.a / 2; y = (ET.ravel() + 1) * p.b / 2
        target = np.concatenate([e0[0] * x + 0.5 * e0[2] * y, e0[1] * y + 0.5 * e0[2] * x, 0 * x])
        A = np.concatenate([U[0], U[1], U[2]], axis=0)
        cfull, res, rk, sv = np.linalg.lstsq(A, target, rcond=None)
        if np.abs(A @ cfull - target).max() > 1e-12 * np.abs(target).max():
            return c.reject('uniform-strain field not representable (fit residual)')
        NLgeom = False
        c.desc['NLgeom'] = False
    else:
        cp = rng.normal(size=size_p)
        cp[2::3] *= t * float(rng.uniform(0.1, 3))
        cp[0::3] *= t * 0.05
        cp[1::3] *= t * 0.05
        if rng.random() < 0.2:
            cp[0::3] = 0; cp[1::3] = 0
        cfull = np.zeros(size)
        cfull[row0:row0 + size_p] = cp
    Farg = None
    if mode == 'per_point_table':
        c.tag('clause:per_point_table')
        Farg = np.ascontiguousarray(np.broadcast_to(np.asarray(p.F), (nx, ny, 6, 6)).copy())
    spt = None
    if mode == 'varying_table':
        c.tag('clause:varying_table')
        # laminate table that really varies from point to point: F(p) = s(p) * F, s in (0.5, 1.5)
        spt = rng.uniform(0.5, 1.5, size=(nx, ny))
        Farg = np.ascontiguousarray(np.asarray(p.F)[None, None, :, :] * spt[:, :, None, None])
    cbefore = cfull.copy()
    okw, okind = gen.order_kwargs(rng, p, nx, ny)
    c.tag('orders:' + okind)
    c.desc['orders_given_as'] = okind
    try:
        KG = p.calc_kG0(size=size, row0=row0, col0=row0, silent=True, c=cfull, Fnxny=Farg, NLgeom=NLgeom, **okw)
    except Exception as e:
        return c.reject('%s in calc_kG0(c): %s' % (type(e).__name__, str(e)[:100]))
    c.hit('calc_kG0(c)')
    c.expect('state vector not modified', np.array_equal(cfull, cbefore))
    crep, rk = gen.vec_repr(rng, cfull, lists=False)
    c.tag('repr:' + rk)
    try:
        KGr = p.calc_kG0(size=size, row0=row0, col0=row0, silent=True, c=crep, Fnxny=Farg, NLgeom=NLgeom, **okw)
    except Exception as e:
        return c.reject('%s for a %s state vector: %s' % (type(e).__name__, rk, str(e)[:100]))
    c.expect('kG0(c) independent of the memory layout of the state vector', np.array_equal(KGr.toarray(), KG.toarray()), rk)
    blk, outside = energy.block(KG, row0, size_p)
    c.expect('zero outside the panel block', outside == 0.0)
    c.expect('exactly symmetric', np.array_equal(blk, blk.T))
    uv = np.ones(size_p, bool); uv[2::3] = False
    c.expect('touches only out-of-plane amplitudes', not blk[uv, :].any() and not blk[:, uv].any())
    # oracle: N(p) = A eps + B kappa of the state at numpy Gauss points of the requested order
    cp = cfull[row0:row0 + size_p]
    Ko, S = state_oracle(p, F, SF, cp, nx, ny, NLgeom, spt)
    ratio, ij = entrywise_excess(blk, Ko, S, 1e-9)
    c.judge('state-based kG uses N = A eps + B kappa of the state at every integration point', ratio * 1e-9, 1e-9,
            data={'entry': ij, 'code': blk[ij], 'oracle': Ko[ij], 'scale': S[ij]})
    if mode == 'uniform_state':
        # must reproduce the constant-load matrix with N = A e0
        Nc = F[:3, :3] @ e0
        p.Nxx, p.Nyy, p.Nxy = [float(v) for v in Nc]
        Kc = p.calc_kG0(size=size, row0=row0, col0=row0, silent=True)
        bc, _ = energy.block(Kc, row0, size_p)
        nxe, nye = energy.exact_orders(p)
        if nx >= nxe - 1 and ny >= nye - 1:
            # scale: the matrix of the absolute-value resultants |A||e0| (a resultant that nearly cancels leaves entries whose
            # round-off is set by the products it is summed from)
            SN = np.abs(F[:3, :3]) @ np.abs(e0)
            sc = np.zeros_like(bc)
            for i in range(3):
                Ni = [0.0, 0.0, 0.0]; Ni[i] = float(SN[i])
                p.Nxx, p.Nyy, p.Nxy = Ni
                sc += np.abs(energy.block(p.calc_kG0(size=size, row0=row0, col0=row0, silent=True), row0, size_p)[0])
            p.Nxx, p.Nyy, p.Nxy = [float(v) for v in Nc]
            sc = sc + 1e-6 * sc.max() + 1e-300
            c.judge('uniform membrane state reproduces the constant-load matrix', float((np.abs(blk - bc) / sc).max()), 1e-8)
    if mode == 'per_point_table':
        K2 = p.calc_kG0(size=size, row0=row0, col0=row0, silent=True, c=cfull, Fnxny=None, NLgeom=NLgeom, **okw)
        b2, _ = energy.block(K2, row0, size_p)
        c.expect('per-point table equal to the uniform laminate changes nothing', np.array_equal(b2, blk),
                 'max diff %r' % float(np.abs(b2 - blk).max()))
    return c
