"""C02 - Panel constitutive stiffness = Hessian of the Donnell CLT strain energy.

Monitor: every matrix returned by the real Panel.calc_k0 on generated panels
is compared entry-wise with O2 (quadrature of the package's own strain field
with numpy Gauss points and the O1 laminate), plus symmetry, PSD, placement,
tiling of sub-intervals and the constant pre-load clause (further real runs)."""
import numpy as np

from .. import gen
from ..core import Case, entrywise_excess
from ..oracles import clt, energy

TOL = 1e-10


def plan(tier):
    n = 400 if tier == 'quick' else 3000
    return dict(n_cases=n, shards=16, min_nontrivial=n // 3,
                min_tags={'model:plate': n // 12, 'model:cpanel': n // 12, 'model:plate_w': n // 20, 'model:kpanel': n // 20,
                          'clause:tiling': n // 10, 'clause:preload': n // 10},
                watchdog_s=1800 if tier == 'quick' else 10000,
                rule='random panels: model in {plate, cpanel, kpanel, plate_w}; a,b log-uniform; r/b in [0.3,1e4]; alpha in [0,60); '
                     'laminates from the C01 generator (unsymmetric/offset biased); 24 edge flags binary/real/ss/free/clamped/mixed; '
                     'm,n in 1..%d; optional sub-interval y1<y2; optional placement in a larger matrix; non-trivial = unsymmetric '
                     'or offset laminate or non-ss flags; distinct = hash of the panel description' % (8 if tier == 'quick' else 12),
                assumptions=['entry-wise tolerance 1e-10 of the absolute-value scale of the oracle quadrature',
                             'conical panels: the energy clause uses the ctypes basis + conical Donnell table with the radius frozen per section '
                             '(the approximation the property exempts); see vp/oracles/conical.py'])


def oracle_k0(p, d, orders=None):
    """O2 for plate / cpanel / plate_w after p.calc_k0 has derived r, alpharad; orders=(nx, ny): the discretised energy on
    that Gauss grid (what the numerical path of calc_k0 must return for the same orders), default: exact orders"""
    nx, ny = energy.exact_orders(p) if orders is None else orders
    xs, ys, w = energy.gauss_grid(p, nx, ny)
    if d['model'] == 'plate_w':
        # the w-only field module offers no strain recovery: ctypes basis + flat Donnell table
        from ..oracles import series
        B = series.donnell_B(p, 2 * xs / p.a - 1., 2 * ys / p.b - 1., p.a, p.b, r=0., num=1)
    else:
        B = energy.strain_basis(p, xs, ys)
    lam = d['lam']
    F, SF = clt.ABD6(lam['stack'], lam['plyts'], lam['laminaprops'], lam['offset'], force_ortho=bool(lam.get('force_ortho')))
    K, S = energy.quad_form(B, F, w)
    # scale: also account for cancellation inside F (use SF in the scale)
    _, S2 = energy.quad_form(B, SF, w)
    return K, np.maximum(S, S2)


def run_case(rng, tier, idx):
    mmax = 8 if tier == 'quick' else 12
    d = gen.panel_desc(rng, mmax=mmax)
    c = Case({'panel': d})
    c.tag('model:' + d['model'], 'flags:' + d['flags']['_style'], 'sub' if 'y1' in d else 'full',
          'placed' if d['size'] != (1 if d['model'] == 'plate_w' else 3) * d['m'] * d['n'] else 'own')
    lam = d['lam']
    c.nontrivial = (lam['kind'] in ('unsym',) or lam['offset'] != 0 or d['flags']['_style'] != 'ss')
    p = gen.build_panel(d)
    for k_ in gen.leftovers(rng, p):
        c.tag('left:' + k_)
    size_p = (1 if d['model'] == 'plate_w' else 3) * d['m'] * d['n']
    try:
        K = p.calc_k0(size=d['size'], row0=d['row0'], col0=d['row0'], silent=True)
    except Exception as e:
        return c.reject('%s in calc_k0: %s' % (type(e).__name__, str(e)[:100]))
    c.hit('calc_k0')
    blk, outside = energy.block(K, d['row0'], size_p)
    c.expect('zero outside the panel block', outside == 0.0, 'max outside %r' % outside)
    c.expect('shape is the requested global size', K.shape == (d['size'], d['size']))
    c.expect('exactly symmetric', np.array_equal(blk, blk.T))
    if d['model'] != 'kpanel':
        Ko, S = oracle_k0(p, d)
        tol = TOL * gen.subinterval_amplification(d)
        ratio, ij = entrywise_excess(blk, Ko, S, tol)
        c.judge('k0 equals the energy Hessian (entry-wise)', ratio * tol, tol,
                data={'entry': ij, 'code': blk[ij], 'oracle': Ko[ij], 'scale': S[ij]})
        Sref = S
    else:
        from ..oracles import conical
        Ko, S = conical.k0_oracle(p, d)
        tol = 1e-9 * gen.subinterval_amplification(d)
        ratio, ij = entrywise_excess(blk, Ko, S, tol)
        c.judge('k0 (conical) equals the sectioned energy Hessian', ratio * tol, tol,
                data={'entry': ij, 'code': blk[ij], 'oracle': Ko[ij], 'scale': S[ij]})
        Sref = S
    # PSD on the block
    ev = np.linalg.eigvalsh((blk + blk.T) / 2)
    c.judge('positive semi-definite', max(0.0, -ev.min()), 1e-9 * max(ev.max(), 1e-300))
    own = dict(d)
    # tiling: pieces (fk0y1y2) add up to the full-width matrix (fk0)
    if rng.random() < 0.35:
        c.tag('clause:tiling')
        dd = dict(d)
        dd.pop('y1', None); dd.pop('y2', None)
        pf = gen.build_panel(dd)
        Kf = pf.calc_k0(size=d['size'], row0=d['row0'], col0=d['row0'], silent=True).toarray()
        k = int(rng.integers(1, 5))
        cuts = [0.0] + sorted(float(x) for x in rng.uniform(0, d['b'], k - 1)) + [d['b']]
        Ks = np.zeros_like(Kf)
        for y1, y2 in zip(cuts[:-1], cuts[1:]):
            if y2 <= y1:
                continue
            dp = dict(dd); dp['y1'] = y1; dp['y2'] = y2
            pp = gen.build_panel(dp)
            Ks += pp.calc_k0(size=d['size'], row0=d['row0'], col0=d['row0'], silent=True).toarray()
        if d['model'] != 'kpanel' and 'y1' not in d:
            St = Sref
        else:
            # scale for the full-width panel
            if d['model'] != 'kpanel':
                _, St = oracle_k0(pf, dd)
            else:
                from ..oracles import conical
                _, St = conical.k0_oracle(pf, dd)
        bf, _ = energy.block(Kf, d['row0'], size_p)
        bs, _ = energy.block(Ks, d['row0'], size_p)
        tolT = 1e-9 * gen.order_amplification(d)        # 0.73e-9 met at 11-12 terms in the thorough tier
        ratio, ij = entrywise_excess(bs, bf, St, tolT)
        c.judge('sub-intervals tiling the width add up to the full matrix', ratio * tolT, tolT,
                data={'cuts': cuts, 'entry': ij, 'sum': bs[ij], 'full': bf[ij]})
    # the same object after its definition changed: k0 must be the energy Hessian of the panel as it is defined NOW
    if rng.random() < 0.3:
        import copy
        d2 = copy.deepcopy(d)
        what = str(rng.choice(['a', 'b', 'flags', 'swap_mn', 'thickness', 'angles', 'offset', 'radius', 'cone_angle']))
        l2 = d2['lam']
        if what == 'a':
            d2['a'] = d['a'] * float(rng.uniform(0.6, 1.6)); p.a = d2['a']
        elif what == 'b' and 'y1' not in d:
            d2['b'] = d['b'] * float(rng.uniform(0.6, 1.6)); p.b = d2['b']
        elif what == 'flags':
            d2['flags'] = gen.flags(rng); gen.apply_flags(p, d2['flags'])
        elif what == 'swap_mn':
            d2['m'], d2['n'] = d['n'], d['m']; p.m, p.n = d2['m'], d2['n']
        elif what == 'thickness':
            f = float(rng.uniform(0.5, 2.0))
            l2['plyts'] = [t * f for t in l2['plyts']]
            # through the per-ply list: the scalar short-hand `plyt` is only read while `plyts` is still unset
            p.plyts = list(l2['plyts'])
        elif what == 'angles':
            dth = float(rng.uniform(5, 85))
            l2['stack'] = [th + dth for th in l2['stack']]; p.stack = list(l2['stack'])
        elif what == 'offset':
            l2['offset'] = float(rng.uniform(-2, 2) * sum(l2['plyts'])); p.offset = l2['offset']
        elif what == 'radius' and 'r' in d:
            d2['r'] = d['r'] * float(rng.uniform(0.5, 3.0)); p.r = d2['r']
        elif what == 'cone_angle' and d['model'] == 'kpanel':
            d2['alphadeg'] = float(rng.uniform(0, 50)) if rng.random() < 0.8 else 0.0; p.alphadeg = d2['alphadeg']
        else:
            what = 'none'
        if what != 'none':
            c.tag('redefined:' + what)
            c.desc['redefined'] = {'what': what, 'panel': d2}
            try:
                K2 = p.calc_k0(size=d['size'], row0=d['row0'], col0=d['row0'], silent=True)
            except Exception as e:
                return c.reject('%s in calc_k0 after redefinition (%s): %s' % (type(e).__name__, what, str(e)[:100]))
            b2, _ = energy.block(K2, d['row0'], size_p)
            if d['model'] == 'kpanel':
                from ..oracles import conical
                twin = gen.build_panel(d2)      # the sectioned oracle reads the derived geometry from a fresh, evaluated twin
                twin.calc_k0(size=d['size'], row0=d['row0'], col0=d['row0'], silent=True)
                Ko2, S2 = conical.k0_oracle(twin, d2)
                tol = 1e-9 * gen.subinterval_amplification(d2)
            else:
                Ko2, S2 = oracle_k0(p, d2)
                tol = TOL * gen.subinterval_amplification(d2)
            ratio, ij = entrywise_excess(b2, Ko2, S2, tol)
            c.judge('k0 of the redefined object equals the energy Hessian of the new definition', ratio * tol, tol,
                    data={'what': what, 'entry': ij, 'code': b2[ij], 'oracle': Ko2[ij]})
    # numerical path at the undeformed state, any Gauss orders (also too low ones, different along x and y): the matrix is the
    # discretised energy on exactly that grid
    if d['model'] in ('plate', 'cpanel') and 'y1' not in d and rng.random() < 0.3:
        c.tag('clause:numerical_path')
        pn = gen.build_panel(d)
        nxq = int(rng.integers(2, 13)); nyq = int(rng.integers(2, 13))
        if nxq == nyq:
            nyq += 1
        c.desc['numerical_orders'] = [nxq, nyq]
        try:
            okw, okind = gen.order_kwargs(rng, pn, nxq, nyq)
            c.tag('orders:' + okind)
            Kn = pn.calc_k0(size=d['size'], row0=d['row0'], col0=d['row0'], silent=True, c=np.zeros(d['size']), **okw)
            bn, outn = energy.block(Kn, d['row0'], size_p)
            Kq, Sq = oracle_k0(pn, d, orders=(nxq, nyq))
            ratio, ij = entrywise_excess(bn, Kq, Sq, 1e-9)
            c.judge('numerical k0 at c = 0 equals the energy discretised on the requested Gauss grid', ratio * 1e-9, 1e-9,
                    data={'orders': [nxq, nyq], 'entry': ij, 'code': bn[ij], 'oracle': Kq[ij]})
        except NotImplementedError as e:
            c.info['numerical_rejected'] = str(e)[:80]
    # constant pre-load adds exactly the matching initial-stress matrix
    if rng.random() < 0.35:
        c.tag('clause:preload')
        N = [0.0 if x is None else x for x in gen.load_triple(rng, scale=float(10 ** rng.uniform(0, 5)), allow_none=False)]
        p1 = gen.build_panel(d)
        p1.Nxx_cte, p1.Nyy_cte, p1.Nxy_cte = N
        K1 = p1.calc_k0(size=d['size'], row0=d['row0'], col0=d['row0'], silent=True).toarray()
        p2 = gen.build_panel(d)
        p2.Nxx, p2.Nyy, p2.Nxy = N
        p2.calc_k0(silent=True)
        G = p2.calc_kG0(size=d['size'], row0=d['row0'], col0=d['row0'], silent=True).toarray()
        K0 = K.toarray()
        diff = K1 - K0 - G
        sc = np.abs(K0) + np.abs(G) + 1e-300
        c.judge('constant pre-load adds exactly kG0(N_cte)', float((np.abs(diff) / (sc + 1e-3 * sc.max())).max()), 1e-12)
    return c
