"""C09 - Newton-Raphson driver: only equilibrated states, in load order, stops.

Monitors (DESIGN 4/C09):
 (a) boundary monitor - a subclass of the real ``Analysis`` whose ``cs`` /
     ``increments`` are recording lists (every append is digested and copied);
     after ``static(NLgeom=True)`` returns every reported pair is re-judged with
     the pure user callables;
 (b) trace monitor - ``newton_raphson.msg`` / ``.warn`` rebound to recorders; the
     event stream is parsed and checked against the driver's contract online
     (bounded progress is enforced by a call budget derived from the settings).
Faults are injected into the *tangent* only (scripted calc_kT), which the
equilibrium oracle never uses, so fext/fint stay pure."""
import hashlib
import math
import re

import numpy as np
import scipy.sparse as sp

from ..core import Case

_trace = []
_msg_budget = [10 ** 9]
_fail_budget = [10 ** 9, 0]   # [max consecutive bisections/failed steps, current run length]


class StepBudgetExceeded(Exception):
    pass


def _rec_msg(text, level=0, silent=False):
    text = str(text)
    _trace.append(('msg', text))
    if text.startswith('Bisecting'):
        _fail_budget[1] += 1
        if _fail_budget[1] > _fail_budget[0]:
            _fail_budget[1] = -10 ** 12
            raise StepBudgetExceeded('more than %d consecutive bisections without a converged step: the increment is '
                                     'not shrinking towards minInc; last: %s' % (_fail_budget[0], text[:70]))
    elif text.startswith('Finished Load Step'):
        _fail_budget[1] = 0
    if len(_trace) > _msg_budget[0]:
        # every loop of the driver logs; a message count beyond what the step
        # bound allows means the driver is not making progress
        _msg_budget[0] = 10 ** 12
        raise StepBudgetExceeded('driver emitted more than the %d log events the step bound allows; last: %s'
                                 % (len(_trace) - 1, str(text)[:60]))


def _rec_warn(text, level=0, silent=False):
    _trace.append(('warn', str(text)))


def plan(tier):
    n = 4000 if tier == 'quick' else 160000
    return dict(n_cases=n, shards=16, min_nontrivial=n // 8,
                min_hits={'static_NL_runs': n // 2, 'reported_states_judged': n // 2},
                min_tags={'ev:D': 20, 'ev:S': 20, 'ev:M': 20, 'ev:X': 20, 'ev:BB': 20, 'hist:success_after_3_cutbacks': 20,
                          'hist:failure_at_full_load': 20, 'family:linear': 20, 'fint(inc)': n // 8},
                watchdog_s=1800 if tier == 'quick' else 10000,
                rule='synthetic n-dof problems (stiffening/softening cubic springs, coupled quartic potentials, snap-through truss, '
                     'linear, with null rows; 30% with an internal force that itself depends on the load factor, as under displacement control) '
                     'with PURE fext/fint and a scripted tangent (exact / scaled / sign-flipped above a load '
                     'level / hostile for large steps / stale / randomly hostile), settings swept (initial/min/max increment, absTOL '
                     'over 8 decades, maxNumIter 2..40, too_slow_TOL, line search, modified NR, compute_every_n, kT_initial_state); '
                     'non-trivial = the run reported at least one state or ended by the minimum-increment rule; distinct = outcome '
                     'word of the run (C/D/S/M/B/G/X sequence) together with the problem family',
                assumptions=['bounded restatement of termination: number of load steps <= (ceil(1/minInc)+16)*(ceil(log(minInc/maxInc)/log 0.3)+3)',
                             'the run is aborted by the monitor (call budget) when that bound is exceeded - that is a violation; the separate wall-clock watchdog only yields inconclusive'])


def setup(tier):
    import compmech.analysis.newton_raphson as NR
    NR.msg = _rec_msg
    NR.warn = _rec_warn


# ----------------------------------------------------------------------------
# problems
# ----------------------------------------------------------------------------
class Problem(object):
    def __init__(self, rng, family, n, nnull):
        self.family = family
        self.n = n
        N = n + nnull
        self.N = N
        self.act = np.sort(rng.choice(N, n, replace=False))
        Q, _ = np.linalg.qr(rng.normal(size=(n, n)))
        d = 10 ** rng.uniform(0, 2, n)
        self.K = (Q * d) @ Q.T
        self.K = (self.K + self.K.T) / 2
        self.f1 = rng.normal(size=n) * 10 ** rng.uniform(0, 2)
        self.f0 = rng.normal(size=n) * (10 ** rng.uniform(-1, 1) if rng.random() < 0.3 else 0.0)
        # characteristic displacement of the linear solution at full load
        cl = np.linalg.solve(self.K, self.f0 + self.f1)
        self.cscale = float(np.abs(cl).max()) + 1e-12
        if family == 'cubic_stiff':
            self.alpha = np.abs(rng.normal(size=n)) * d.mean() / self.cscale ** 2 * 10 ** rng.uniform(-1, 1.5)
        elif family == 'cubic_soft':
            self.alpha = -np.abs(rng.normal(size=n)) * d.min() / self.cscale ** 2 * 10 ** rng.uniform(-2, -0.3)
        elif family == 'quartic':
            B = rng.normal(size=(n, n))
            self.B = B @ B.T + np.eye(n)
            self.beta = float(d.mean() / (cl @ self.B @ cl + 1e-30) * 10 ** rng.uniform(-1, 1.5))
        elif family == 'log_spring':
            # two uncoupled groups: a linear group and a group of logarithmic springs f_i = k_i s_i log(1 + c_i/s_i) whose force is
            # undefined (NaN) for c_i <= -s_i.  Equilibrium exists for every load, but a full first Newton step overshoots into the
            # undefined range when the load is below -k_i s_i
            nb = max(1, n // 2)
            self.nb = nb
            Kb = np.zeros((n, n))
            na = n - nb
            if na:
                Kb[:na, :na] = self.K[:na, :na] + np.eye(na) * d.mean()
            self.kb = 10 ** rng.uniform(0, 2, nb)
            self.sb = 10 ** rng.uniform(-1, 1, nb)
            Kb[na:, na:] = np.diag(self.kb)
            self.K = Kb
            self.f0 = np.zeros(n)
            self.f1[na:] = -self.kb * self.sb * rng.uniform(0.3, 3.0, nb)
            cl = np.linalg.solve(self.K, self.f0 + self.f1)
            self.cscale = float(np.abs(cl).max()) + 1e-12
        elif family == 'truss':
            # 1 effective dof snap-through: f = k (c^3 - 3 h c^2 + 2 h^2 c), limit load k h^3 * 2/(3 sqrt 3)
            self.n = n = 1
            self.N = N = 1 + nnull
            self.act = np.sort(rng.choice(N, 1, replace=False))
            self.h = float(10 ** rng.uniform(-1, 1))
            self.k = float(10 ** rng.uniform(0, 2))
            flim = self.k * self.h ** 3 * 2 / (3 * math.sqrt(3))
            self.f1 = np.array([flim * float(rng.uniform(0.3, 1.6))])   # below or above the limit point
            self.f0 = np.zeros(1)
            self.K = np.array([[self.k * 2 * self.h ** 2]])
            self.cscale = self.h
        self.fscale = float(np.abs(self.f0 + self.f1).max()) + 1e-300
        # displacement-controlled part: internal force that itself depends on the load factor (what a prescribed shortening does in
        # the shell models: calc_fint(c, inc) inserts inc * prescribed constants); the tangent is unaffected
        self.g = rng.normal(size=self.n) * self.fscale * 10 ** rng.uniform(-2, 0) if rng.random() < 0.3 else None

    def _emb_v(self, v):
        out = np.zeros(self.N)
        out[self.act] = v
        return out

    def _emb_m(self, M):
        out = np.zeros((self.N, self.N))
        out[np.ix_(self.act, self.act)] = M
        return sp.csr_matrix(out)

    def fext(self, lam):
        return self._emb_v(self.f0 + lam * self.f1)

    def fint(self, cfull, lam=0.0):
        c = np.asarray(cfull)[self.act]
        fam = self.family
        if fam in ('cubic_stiff', 'cubic_soft'):
            f = self.K @ c + self.alpha * c ** 3
        elif fam == 'quartic':
            Bc = self.B @ c
            f = self.K @ c + self.beta * (c @ Bc) * Bc
        elif fam == 'log_spring':
            na = self.n - self.nb
            f = self.K @ c
            with np.errstate(all='ignore'):
                f[na:] = self.kb * self.sb * np.log1p(c[na:] / self.sb)
        elif fam == 'truss':
            x = c[0]
            f = np.array([self.k * (x ** 3 - 3 * self.h * x ** 2 + 2 * self.h ** 2 * x)])
        else:
            f = self.K @ c
        if self.g is not None:
            f = f + lam * self.g
        return self._emb_v(f)

    def jac(self, cfull):
        c = np.asarray(cfull)[self.act]
        fam = self.family
        if fam in ('cubic_stiff', 'cubic_soft'):
            J = self.K + np.diag(3 * self.alpha * c ** 2)
        elif fam == 'quartic':
            Bc = self.B @ c
            J = self.K + self.beta * ((c @ Bc) * self.B + 2 * np.outer(Bc, Bc))
        elif fam == 'log_spring':
            na = self.n - self.nb
            J = self.K.copy()
            with np.errstate(all='ignore'):
                J[na:, na:] = np.diag(self.kb / (1 + c[na:] / self.sb))
        elif fam == 'truss':
            x = c[0]
            J = np.array([[self.k * (3 * x ** 2 - 6 * self.h * x + 2 * self.h ** 2)]])
        else:
            J = self.K
        return J


class RecList(list):
    """list that records every append (the monitor's shadow of run.cs / run.increments)"""

    def __init__(self, log, kind):
        list.__init__(self)
        self._log = log
        self._kind = kind

    def append(self, x):
        if isinstance(x, np.ndarray):
            self._log.append((self._kind, len(_trace), hashlib.sha256(x.tobytes()).hexdigest(), x.copy(), id(x)))
        else:
            self._log.append((self._kind, len(_trace), float(x)))
        list.append(self, x)


def make_analysis(pb, script, rng, counters, budget):
    from compmech.analysis import Analysis

    class MonitoredAnalysis(Analysis):
        # a subclass without __slots__ gets a __dict__; these properties shadow the base slots
        @property
        def cs(self):
            return self.__dict__.get('_cs')

        @cs.setter
        def cs(self, v):
            if isinstance(v, list) and not isinstance(v, RecList):
                r = RecList(self._applog, 'c')
                r.extend(v)
                v = r
            self.__dict__['_cs'] = v

        @property
        def increments(self):
            return self.__dict__.get('_incs')

        @increments.setter
        def increments(self, v):
            if isinstance(v, list) and not isinstance(v, RecList):
                r = RecList(self._applog, 'l')
                r.extend(v)
                v = r
            self.__dict__['_incs'] = v

    state = {'first_J': None, 'last_reported': 0.0}

    def calc_fext(inc=1., silent=True, **kw):
        counters['fext'] += 1
        if counters['fext'] > budget:
            raise StepBudgetExceeded('calc_fext called %d times' % counters['fext'])
        return pb.fext(inc)

    def calc_k0(silent=True, **kw):
        counters['k0'] += 1
        return pb._emb_m(pb.K)

    def calc_fint(c=None, inc=None, silent=True, **kw):
        counters['fint'] += 1
        if counters['fint'] > 60 * budget:
            raise StepBudgetExceeded('calc_fint called %d times' % counters['fint'])
        return pb.fint(c, 0.0 if inc is None else inc)

    def calc_kT(c=None, inc=None, silent=True, **kw):
        counters['kT'] += 1
        J = pb.jac(c)
        kind = script['kind']
        lam_rep = an.increments[-1] if an.increments else 0.0
        hostile = False
        if kind == 'scaled':
            J = J * script['rho']
        elif kind == 'flip_above':
            hostile = inc is not None and inc >= script['lam_star']
        elif kind == 'big_step':
            hostile = inc is not None and (inc - lam_rep) > script['delta']
        elif kind == 'window':
            hostile = inc is not None and script['a'] <= inc <= script['b']
        elif kind == 'random':
            hostile = rng.random() < script['q']
        elif kind == 'stale':
            if state['first_J'] is None:
                state['first_J'] = J.copy()
            J = state['first_J']
        if hostile:
            counters['hostile_kT'] += 1
            how = script.get('how', 'flip')
            if how == 'flip':
                J = -J
            elif how == 'tiny':
                J = J * 1e-3
            elif how == 'huge':
                J = J * 1e3
            else:
                A = rng.normal(size=J.shape)
                J = A @ A.T + np.eye(J.shape[0]) * 1e-3
        return pb._emb_m(J)

    an = MonitoredAnalysis.__new__(MonitoredAnalysis)
    an.__dict__['_applog'] = []
    MonitoredAnalysis.__init__(an, calc_fext, calc_k0, calc_fint, calc_kT)
    return an


# ----------------------------------------------------------------------------
# trace parsing
# ----------------------------------------------------------------------------
RE_START = re.compile(r'Started Load Step (\d+) - Attempting time = (.*)$')
RE_FIN = re.compile(r'Finished Load Step (\d+) at time = (.*)$')
RE_BIS = re.compile(r'Bisecting time increment from (.*) to (.*)$')
RE_CHG = re.compile(r'Changing time increment from (.*) to (.*)$')
RE_RMAX = re.compile(r'Rmax = (.*)$')
RE_IT = re.compile(r'Iteration: (\d+)$')


def parse(trace):
    ev = []
    for k, (kind, t) in enumerate(trace):
        m = RE_START.match(t)
        if m:
            ev.append(('start', k, int(m.group(1)), float(m.group(2)))); continue
        m = RE_FIN.match(t)
        if m:
            ev.append(('C', k, int(m.group(1)), float(m.group(2)))); continue
        m = RE_BIS.match(t)
        if m:
            ev.append(('B', k, float(m.group(1)), float(m.group(2)))); continue
        m = RE_CHG.match(t)
        if m:
            ev.append(('G', k, float(m.group(1)), float(m.group(2)))); continue
        m = RE_RMAX.match(t)
        if m:
            ev.append(('R', k, float(m.group(1)))); continue
        m = RE_IT.match(t)
        if m:
            ev.append(('it', k, int(m.group(1)))); continue
        if t.startswith('Maximum number of iterations'):
            ev.append(('M', k))
        elif t.startswith('Diverged! (convergence too slow)'):
            ev.append(('S', k))
        elif t.startswith('Diverged!'):
            ev.append(('D', k))
        elif t.startswith('Stopping solver: minimum step size'):
            ev.append(('X', k))
        elif t.startswith('Finished Non-Linear Static Analysis'):
            ev.append(('END', k))
    return ev


def gen_settings(rng):
    s = {}
    s['initialInc'] = float(rng.choice([1.0, 0.3, 0.5, 0.9995, 0.1]) if rng.random() < 0.4 else 10 ** rng.uniform(-3, 0))
    s['minInc'] = float(10 ** rng.uniform(-3.3, np.log10(0.3)))
    if rng.random() < 0.05:
        s['minInc'] = float(10 ** rng.uniform(-5, -3.3))
    if rng.random() < 0.15:
        # exactly on the cut-back ladder of the first increment (inc *= 0.3 repeatedly, the same float operations): the boundary
        # case of every comparison with minInc
        x = s['initialInc']
        for _ in range(int(rng.integers(1, 5))):
            x *= 0.3
        s['minInc'] = float(x)
    s['maxInc'] = float(rng.choice([1.0, 0.5, 0.2]) if rng.random() < 0.6 else 10 ** rng.uniform(-2, 0))
    s['maxNumIter'] = int(rng.integers(2, 41))
    s['too_slow_TOL'] = float(rng.choice([0.01, 0.0, 0.1, 0.3]))
    s['line_search'] = bool(rng.random() < 0.4)
    s['max_iter_line_search'] = int(rng.integers(2, 21))
    s['modified_NR'] = bool(rng.random() < 0.5)
    s['compute_every_n'] = int(rng.integers(1, 9))
    s['kT_initial_state'] = bool(rng.random() < 0.7)
    return s


def gen_script(rng):
    kind = str(rng.choice(['exact', 'exact', 'scaled', 'flip_above', 'big_step', 'window', 'random', 'stale']))
    sc = {'kind': kind, 'how': str(rng.choice(['flip', 'tiny', 'huge', 'spd']))}
    if kind == 'scaled':
        sc['rho'] = float(10 ** rng.uniform(np.log10(0.05), np.log10(300)))
    elif kind == 'flip_above':
        sc['lam_star'] = float(rng.choice([1.0, 0.999, 0.9, 0.5]) if rng.random() < 0.5 else rng.uniform(0.05, 1.0))
    elif kind == 'big_step':
        sc['delta'] = float(10 ** rng.uniform(-3, -0.3))
    elif kind == 'window':
        a = float(rng.uniform(0.05, 0.98))
        sc['a'] = a
        sc['b'] = a + float(10 ** rng.uniform(-4, -0.7))
    elif kind == 'random':
        sc['q'] = float(rng.uniform(0.05, 0.6))
    return sc


def step_bound(s):
    maxInc = max(s['initialInc'], s['maxInc'])
    per_fail = math.ceil(math.log(s['minInc'] / maxInc) / math.log(0.3)) + 3
    return (math.ceil(1.0 / min(s['minInc'], s['initialInc'])) + 16) * per_fail


def run_case(rng, tier, idx):
    del _trace[:]
    family = str(rng.choice(['cubic_stiff', 'cubic_soft', 'quartic', 'truss', 'linear', 'cubic_stiff']))
    if rng.random() < 0.08:
        family = 'log_spring'
    n = int(rng.integers(1, 9))
    nnull = int(rng.integers(0, 4)) if rng.random() < 0.3 else 0
    pb = Problem(rng, family, n, nnull)
    s = gen_settings(rng)
    script = gen_script(rng)
    s['absTOL'] = float(pb.fscale * 10 ** rng.uniform(-9, -1))
    c = Case({'family': family, 'n': pb.n, 'nnull': nnull, 'settings': s, 'script': script})
    c.tag('family:' + family, 'script:' + script['kind'], 'ls' if s['line_search'] else 'nols',
          'mNR' if s['modified_NR'] else 'fNR', 'fint(inc)' if pb.g is not None else 'fint(c)')
    bound = step_bound(s)
    # each load step calls calc_fext once (+1 initial, +1 per restart from scratch)
    budget = 2 * bound + 10
    if budget > 400000:
        s['minInc'] = max(s['minInc'], 1e-4)
        bound = step_bound(s)
        budget = 2 * bound + 10
    _fail_budget[0] = math.ceil(math.log(s['minInc'] / max(s['initialInc'], s['maxInc'])) / math.log(0.3)) + 3
    _fail_budget[1] = 0
    _msg_budget[0] = (bound + 2) * ((s['maxNumIter'] + 2) * 8 + 12)
    counters = {'fext': 0, 'k0': 0, 'fint': 0, 'kT': 0, 'hostile_kT': 0}
    an = make_analysis(pb, script, rng, counters, budget)
    for k, v in s.items():
        setattr(an, k, v)
    applog = an.__dict__['_applog']
    exceeded = None
    try:
        with np.errstate(all='ignore'):
            import warnings
            with warnings.catch_warnings():
                warnings.simplefilter('ignore')
                incs, cs = an.static(NLgeom=True, silent=True)
    except StepBudgetExceeded as e:
        exceeded = str(e)
    except Exception as e:
        return c.reject('%s inside static(NLgeom=True): %s' % (type(e).__name__, str(e)[:100]))
    c.hit('static_NL_runs')
    ev = parse(_trace)
    word = ''.join(e[0] for e in ev if e[0] in 'CDSMBGX')
    c.info['word'] = word[:400]
    c.info['counters'] = dict(counters)
    c.key = family + ':' + script['kind'] + ':' + hashlib.sha256(word.encode()).hexdigest()[:12]
    for ch in 'CDSMXB':
        if ch in word:
            c.tag('ev:' + ch)
    if re.search(r'[DSM]B[DSM]B', word):
        c.tag('ev:BB')

    if exceeded:
        c.violate('bounded progress (termination)', 'run exceeded the step bound %d derived from the settings: %s; word starts %s'
                  % (bound, exceeded, word[:80]))
        return c
    incs = list(an.increments)
    cs = list(an.cs)
    absTOL = s['absTOL']

    # ---- boundary monitor: every reported pair re-judged with the pure callables
    c.expect('as many load factors as states', len(incs) == len(cs), '%d vs %d' % (len(incs), len(cs)))
    for lam, cc in zip(incs, cs):
        R = pb.fext(lam) - pb.fint(cc, lam)
        c.hit('reported_states_judged')
        rmax = float(np.abs(R).max())
        c.expect('reported state is equilibrated: max|fext-fint| < absTOL', rmax < absTOL,
                 'lam=%.12g Rmax=%.6e absTOL=%.6e' % (lam, rmax, absTOL))
    if incs:
        c.expect('load factors strictly increasing', bool(np.all(np.diff(incs) > 0)), 'increments=%r' % (incs[-6:],))
        c.expect('load factors within (0, 1]', incs[0] > 0 and incs[-1] <= 1, 'first %r last %r' % (incs[0], incs[-1]))
    # snapshots: digest at append time == digest at return time, and no aliasing between entries
    apps_c = [a for a in applog if a[0] == 'c']
    apps_l = [a for a in applog if a[0] == 'l']
    c.expect('every reported state went through an append', len(apps_c) == len(cs) and len(apps_l) == len(incs))
    for (k_, pos, dig, cp, ident), cc in zip(apps_c, cs):
        c.expect('reported state is a snapshot (unchanged since it was reported)',
                 hashlib.sha256(np.asarray(cc).tobytes()).hexdigest() == dig)
    c.expect('reported states do not alias each other', len({id(x) for x in cs}) == len(cs))

    # ---- trace monitor: contract of the event stream
    last_rep = 0.0
    attempt = None
    failed_at = None
    nsteps = 0
    iters_in_step = 0
    last_R = None
    last_it = None
    appended = 0
    app_positions = [a[1] for a in apps_l]
    maxInc_eff = max(s['initialInc'], s['maxInc'])
    for e in ev:
        if e[0] == 'start':
            nsteps += 1
            attempt = e[3]
            iters_in_step = 0
            if failed_at is not None:
                c.expect('after a failed step the next attempt is below the failed load factor', attempt < failed_at,
                         'failed at %.12g, next attempt %.12g' % (failed_at, attempt))
                c.expect('after a failed step the next attempt is above the last reported load factor', attempt > last_rep,
                         'last reported %.12g, next attempt %.12g' % (last_rep, attempt))
                failed_at = None
            c.expect('attempted increment never exceeds maxInc', attempt - last_rep <= maxInc_eff * (1 + 1e-9),
                     'attempt %.12g from %.12g, maxInc %.6g' % (attempt, last_rep, maxInc_eff))
        elif e[0] == 'it':
            iters_in_step += 1
            last_it = e[2]
            c.expect('iterations per step bounded by maxNumIter+1', iters_in_step <= s['maxNumIter'] + 1)
        elif e[0] == 'R':
            last_R = e[2]
        elif e[0] == 'C':
            # a convergence event must be justified by the last logged residual and iteration count
            c.expect('convergence only with Rmax < absTOL', last_R is not None and last_R < absTOL,
                     'logged Rmax %r absTOL %r' % (last_R, absTOL))
            c.expect('convergence only at iteration >= 2', last_it is not None and last_it >= 2, 'iteration %r' % (last_it,))
            c.expect('reported load factor is the attempted one', e[3] == attempt)
            # an append must follow this event (before the next trace event)
            ok = appended < len(app_positions) and app_positions[appended] == e[1] + 1
            c.expect('a converged step is reported immediately', ok)
            appended += 1
            last_rep = e[3]
        elif e[0] in 'DSM':
            failed_at = attempt
    c.expect('only converged steps are reported', appended == len(incs), 'C events %d, reported %d' % (appended, len(incs)))
    c.judge('number of load steps within the bound from the settings', nsteps, bound)
    # ---- termination clause
    ended_min = 'X' in word
    ended_full = bool(incs) and incs[-1] == 1
    mech = None
    if not (ended_min or ended_full):
        # defect model of the recorded finding: the driver declares success when |lambda-1| < 1e-3
        if incs and abs(incs[-1] - 1) < 1e-3 and incs[-1] != 1:
            mech = 'nr-finishes-within-1e-3-of-full-load'
    c.expect('terminates with last load factor == 1 or by the minimum-increment rule', ended_min or ended_full,
             'last reported %r, word tail %s' % (incs[-1] if incs else None, word[-12:]), mechanism=mech)
    if ended_min and ended_full:
        c.tag('hist:both_full_and_min')
    # history classes for the evidence
    if re.search(r'[DSM]B+[DSM]B+[DSM]B+C', word):
        c.tag('hist:success_after_3_cutbacks')
    fails_at_full = any(e[0] == 'start' and abs(e[3] - 1) < 1e-3 for e in ev) and not ended_full
    if fails_at_full:
        c.tag('hist:failure_at_full_load')
    # ---- linear problem: full load with the linear solution
    if family == 'linear' and script['kind'] == 'exact':
        c.expect('linear problem reaches full load', ended_full, 'incs %r word %s' % (incs[-3:], word[-10:]), mechanism=mech)
        if ended_full:
            cl = np.zeros(pb.N)
            cl[pb.act] = np.linalg.solve(pb.K, pb.f0 + pb.f1 - (pb.g if pb.g is not None else 0.0))
            c.judge('linear problem returns the linear solution', np.abs(cs[-1] - cl).max(),
                    1e-6 * pb.cscale + absTOL / np.linalg.eigvalsh(pb.K).min() * 10)
    c.nontrivial = bool(incs) or ended_min
    return c


def extra_evidence(cases):
    words = set()
    for r in cases:
        w = (r.get('info') or {}).get('word')
        if w is not None:
            words.add(w)
    return {'distinct_outcome_words': len(words), 'sample_words': sorted(words, key=len)[-5:]}
