"""C16 - shell linear matrices: energy-consistent, symmetric PSD, cone(0 deg) =
cylinder, iso short-cuts = general models, kG0 linear in (Fc, P, T).

Monitor: matrices produced by the real ConeCyl._calc_linear_matrices and by
the model kernels fk0/fk0_cyl/fkG0/fkG0_cyl, judged by O2 (quadrature of
ConeCyl's own linear strain field + edge-spring energy) and by differential
execution of equivalent descriptions."""
import numpy as np
import scipy.sparse as sp

from .. import gen
from ..core import Case, entrywise_excess
from ..oracles import shell

KINDS = ['energy', 'energy', 'cone0', 'iso', 'kG0', 'structure', 'edges']


def plan(tier):
    n = 288 if tier == 'quick' else 3600
    return dict(n_cases=n, shards=16, min_nontrivial=n // 3,
                min_tags={'kind:energy': n // 6, 'kind:cone0': n // 10, 'kind:iso': n // 10, 'kind:kG0': n // 10, 'kind:structure': n // 10, 'kind:edges': n // 10, 'force_ortho': n // 40,
                          'geom:cone': n // 10, 'geom:cylinder': n // 10},
                watchdog_s=2400 if tier == 'quick' else 14000,
                rule='registered classical and first-order-shear shell models with their boundary-condition variants, r2/L over a decade, alpha in {0} u (0.5,60) deg, '
                     'laminates incl. unsymmetric, (m1,m2,n2) in 1..%d, elastic edge restraints 0..1e8, load triples of all signs; energy clause for classical models '
                     '(cylinders: exact; cones: convergence in the number of meridian sections s = 10,20,40,80 with rate s^-2 and Richardson limit); '
                     'non-trivial = cone or unsymmetric laminate or elastic restraint; distinct = hash of the description' % (4 if tier == 'quick' else 6),
                assumptions=['edge-restraint clause: compared on the series amplitudes only (the restraints act relative to the loaded ring: the kernels '
                             'leave the rows of the three base-function amplitudes empty, which the property does not speak about)',
                             'energy clause compared on the amplitudes that are not prescribed (axial shortening free; twist and load asymmetry prescribed by default)',
                             'cones: the kernels freeze the radius per meridian section; the oracle integrates the continuous radius and the monitor checks s^-2 convergence to it'])


def make_symmetric_dense(M):
    from compmech.sparse import make_symmetric
    return make_symmetric(sp.coo_matrix(M)).toarray()


def k0_of(cc):
    cc._calc_linear_matrices(silent=True)
    return cc.k0.toarray()


def k0_surface(cc):
    """k0 minus the elastic edge-restraint part (obtained from the real fk0edges through modelDB)"""
    import compmech.conecyl.modelDB as M
    K = k0_of(cc)
    ke = M.get_linear_matrices(cc)[4]
    if ke is not None:
        K = K - make_symmetric_dense(ke)
    return K


def strain_twin(d):
    """iso short-cut models have no strain recovery of their own (ConeCyl.strain refuses the model
    name); the general model with the same boundary conditions shares the field (same commons module)"""
    if not d['model'].startswith('iso_'):
        t = gen.build_shell(d)
        t._rebuild()
        return t
    g = dict(d); g['model'] = d['model'][4:]
    for k in ('E11', 'nu', 'h'):
        g.pop(k)
    g['stack'] = [0.]; g['plyt'] = d['h']; g['laminaprop'] = [d['E11'], d['E11'], d['nu']]
    t = gen.build_shell(g)
    t._rebuild()
    return t


def build_with_history(rng, d, c):
    """the shell under test: fresh (60%) or after an earlier life - geometry (r2, L, angle) assigned, the object rebuilt (what
    add_SPL does) or evaluated, then the geometry of `d` assigned.  Only r2, L and the angle are ever given by the user, so the
    object as defined at call time is unambiguous"""
    if rng.random() < 0.6:
        cc = gen.build_shell(d)
        for k_ in gen.shell_leftovers(rng, cc, d, prob=0.4):
            c.tag('left:' + k_)
        return cc
    pre = dict(d)
    what = str(rng.choice(['angle_assigned_later', 'other_geometry']))
    if what == 'angle_assigned_later':
        pre['alphadeg'] = 0.0 if d['alphadeg'] else float(rng.uniform(5, 40))
    else:
        pre['alphadeg'] = float(rng.uniform(0, 50))
        pre['L'] = d['L'] * float(rng.uniform(0.5, 2)); pre['r2'] = d['r2'] * float(rng.uniform(0.5, 2))
    cc = gen.build_shell(pre)
    if rng.random() < 0.5:
        cc._rebuild()
    else:
        k0_of(cc)
    cc.alphadeg = d['alphadeg']; cc.r2 = d['r2']; cc.L = d['L']
    c.tag('history:' + what)
    c.desc['history'] = {'kind': what, 'alphadeg': pre['alphadeg'], 'L': pre['L'], 'r2': pre['r2']}
    return cc


def run_case(rng, tier, idx):
    kind = KINDS[idx % len(KINDS)]
    c = Case({'kind': kind})
    c.round = idx // len(KINDS)
    c.tag('kind:' + kind)
    try:
        return globals()['case_' + kind](c, rng, tier)
    except NotImplementedError as e:
        return c.reject('NotImplementedError: %s' % str(e)[:100])


def layout(model, m1, m2, n2):
    import compmech.conecyl.modelDB as M
    md = M.db[model]
    return dict(num0=md['num0'], num1=md['num1'], num2=md['num2'], i0=md['i0'], j0=md['j0'], m1=m1, m2=m2, n2=n2,
                n_ax=md['num0'] + md['num1'] * m1)


def ax_cols(lay, i1):
    """columns of axisymmetric term i1 (i1 counted from i0)"""
    s0 = lay['num0'] + (i1 - lay['i0']) * lay['num1']
    return list(range(s0, s0 + lay['num1']))


def harm_cols_i2(lay, i2):
    """all columns of the harmonic terms whose meridional index is i2 (every j2)"""
    out = []
    for j in range(lay['n2']):
        s0 = lay['n_ax'] + (i2 - lay['i0']) * lay['num2'] + j * lay['num2'] * lay['m2']
        out += list(range(s0, s0 + lay['num2']))
    return out


def close(A, B, tol=1e-7):
    sc = np.abs(A) + np.abs(B)
    sc = sc + 1e-6 * (sc.max() if sc.size else 1.) + 1e-300
    return float((np.abs(A - B) / sc).max()) <= tol


def stale_index(K, lay):
    """defect model of the iso short-cut kernels: the coupling of the first three amplitudes with axisymmetric
    term i1 >= second is written with the stale inner-loop index, i.e. with the value of the LAST term"""
    P = K.copy()
    last = ax_cols(lay, lay['i0'] + lay['m1'] - 1)
    for t in range(1, lay['m1']):
        cols = ax_cols(lay, lay['i0'] + t)
        for r in range(3):
            for a, b in zip(cols, last):
                P[r, a] = K[r, b]; P[a, r] = K[b, r]
    return P


def drop_i2_first_u_rows(K, lay):
    """defect model of clpt_donnell_bc2's cone kernel fk0: in the harmonic-harmonic loops the symmetry test
    `if row > col: continue` is evaluated BEFORE col is assigned, i.e. with the stale col of the previous
    iteration (initially the last axisymmetric column), so block (row, col) is written only if
    row <= stale col as well.  The loop is re-enacted here to obtain the set of skipped blocks."""
    num0, num1, num2, m1, m2, n2, n_ax = (lay[k] for k in ('num0', 'num1', 'num2', 'm1', 'm2', 'n2', 'n_ax'))
    col = num0 + (m1 - 1) * num1
    proc = set()
    for i2 in range(m2):
        for k2 in range(m2):
            for j2 in range(n2):
                row = i2 * num2 + j2 * num2 * m2 + n_ax
                for l2 in range(n2):
                    if row > col:
                        continue
                    col = k2 * num2 + l2 * num2 * m2 + n_ax
                    proc.add((row, col))
    P = K.copy()
    for i2 in range(m2):
        for k2 in range(m2):
            for j2 in range(n2):
                for l2 in range(n2):
                    row = i2 * num2 + j2 * num2 * m2 + n_ax
                    col = k2 * num2 + l2 * num2 * m2 + n_ax
                    if row <= col and (row, col) not in proc:
                        P[row:row + num2, col:col + num2] = 0.
                        P[col:col + num2, row:row + num2] = 0.
    return P


def sanders_bc3_keep(lay, size):
    """entries NOT involving the first component (u, sine part) of a harmonic term: the location the recorded
    clpt_sanders_bc3 kernel defect is confined to (location-confined classifier)"""
    bad = np.zeros(size, bool)
    bad[lay['n_ax']::lay['num2']] = True
    return ~(bad[:, None] | bad[None, :])


def halve_first_i2_block(K, lay):
    """defect model of fsdt_sanders_bcn's cylinder kernel: the block of harmonic terms with the first
    meridional index (row and column) carries a factor 1/2"""
    P = K.copy()
    idx = harm_cols_i2(lay, lay['i0'])
    P[np.ix_(idx, idx)] *= 0.5
    return P


def springs_of(model):
    return gen.SPRINGS.get(model.split('_')[-1], [])


def case_energy(c, rng, tier):
    mmax = 4 if tier == 'quick' else 6
    d = gen.shell_desc(rng, models=gen.CLPT_MODELS + gen.ISO_MODELS, mmax=mmax, nmax=3)
    if 'stack' in d and not d.get('force_ortho') and rng.random() < 0.25:
        d['force_ortho'] = True       # the documented zeroing of the 16/26 couplings: a quarter of the laminated shells of the energy clause
    if d.get('force_ortho'):
        c.tag('force_ortho')
    c.desc['shell'] = d
    cone = d['alphadeg'] != 0
    c.tag('model:' + d['model'], 'geom:cone' if cone else 'geom:cylinder')
    c.nontrivial = True
    free = None
    if not cone:
        cc = build_with_history(rng, d, c)
        K = k0_surface(cc)
        tw = strain_twin(d)
        size = K.shape[0]
        free = np.setdiff1d(np.arange(size), cc.excluded_dofs)
        Ko, S, _ = shell.k0_oracle(tw, d, [])
        # quadrature error of the oracle in x: doubling check
        Ko2, _, _ = shell.k0_oracle(tw, d, [], nxg=2 * (6 * max(cc.m1, cc.m2) + 12))
        qerr, _ = entrywise_excess(Ko[np.ix_(free, free)], Ko2[np.ix_(free, free)], S[np.ix_(free, free)], 1e-10)
        c.judge('oracle quadrature converged', qerr * 1e-10, 1e-10)
        # closed-form kernels against quadrature: the observed round-off grows with the meridional order (thorough-tier calibration:
        # 0.87e-9 at 6 terms, < 0.2e-9 up to 4 terms)
        tolE = 2e-9 * max(1.0, max(cc.m1, cc.m2) / 4.0) ** 4
        ratio, ij = entrywise_excess(K[np.ix_(free, free)], Ko[np.ix_(free, free)], S[np.ix_(free, free)], tolE)
        mech = None
        if ratio > 1 and d['model'] == 'clpt_sanders_bc3':
            keep = sanders_bc3_keep(layout(d['model'], cc.m1, cc.m2, cc.n2), K.shape[0])[np.ix_(free, free)]
            r3, _ = entrywise_excess(np.where(keep, K[np.ix_(free, free)], 0.), np.where(keep, Ko[np.ix_(free, free)], 0.), S[np.ix_(free, free)], tolE)
            if r3 <= 1:
                mech = 'clpt_sanders_bc3-kernel-first-harmonic-component'
        if ratio > 1 and d['model'].startswith('iso_'):
            lay = layout(d['model'][4:], cc.m1, cc.m2, cc.n2)
            r2_, _ = entrywise_excess(K[np.ix_(free, free)], stale_index(Ko, lay)[np.ix_(free, free)], S[np.ix_(free, free)], tolE)
            if r2_ <= 1:
                mech = 'iso-kernels-k0_01-stale-index'
        c.judge('cylinder k0 equals the Hessian of the strain energy of the package strain field (free amplitudes)', ratio * tolE, tolE, mechanism=mech,
                data={'entry': [int(free[ij[0]]), int(free[ij[1]])]})
        Kf = k0_of(cc)
        c.expect('k0 symmetric', np.array_equal(Kf, Kf.T))
        ev = np.linalg.eigvalsh(Kf)
        c.judge('k0 positive semi-definite', max(0.0, -ev.min()), 1e-9 * ev.max())
        return c
    # cone: convergence in the number of sections
    errs = []
    Ks = {}
    Ko = S = None
    for s in (10, 20, 40, 80):
        dd = dict(d); dd['s'] = s
        cc = build_with_history(rng, dd, c)
        K = k0_surface(cc)
        if Ko is None:
            size = K.shape[0]
            free = np.setdiff1d(np.arange(size), cc.excluded_dofs)
            Ko, S, _ = shell.k0_oracle(strain_twin(d), d, [], nxg=8 * max(cc.m1, cc.m2) + 24)
            Sf = S[np.ix_(free, free)]
            den = Sf + 1e-6 * Sf.max() + 1e-300
        Ks[s] = K[np.ix_(free, free)]
        errs.append(float((np.abs(Ks[s] - Ko[np.ix_(free, free)]) / den).max()))
    c.info['errs'] = errs
    R = (4 * Ks[80] - Ks[40]) / 3.
    rich = float((np.abs(R - Ko[np.ix_(free, free)]) / den).max())
    rates_ok = all(3.0 <= e0 / max(e1, 1e-300) <= 5.0 for e0, e1 in zip(errs[:-1], errs[1:]) if e0 > 1e-9)
    mech = None
    RICH = 3e-6      # residual of the s = 40, 80 extrapolation on steep, long cones: 0.75e-6 observed over 3600 cases
    if rich > RICH or not rates_ok:
        # defect models: judge the same convergence against the oracle transformed by the hypothesised defect
        cands = []
        if d['model'] == 'clpt_donnell_bc2':
            cands.append(('clpt_donnell_bc2-cone-kernel-skips-harmonic-blocks', drop_i2_first_u_rows(Ko, layout(d['model'], cc.m1, cc.m2, cc.n2))))
        if d['model'].startswith('iso_'):
            lay = layout(d['model'][4:], cc.m1, cc.m2, cc.n2)
            cands.append(('iso-kernels-k0_01-stale-index', stale_index(Ko, lay)))
        if d['model'] == 'clpt_sanders_bc3':
            keep = sanders_bc3_keep(layout(d['model'], cc.m1, cc.m2, cc.n2), size)[np.ix_(free, free)]
            e3 = [float((np.abs(Ks[s_] - Ko[np.ix_(free, free)]) / den)[keep].max()) for s_ in (10, 20, 40, 80)]
            if all(3.0 <= a / max(b, 1e-300) <= 5.0 for a, b in zip(e3[:-1], e3[1:]) if a > 1e-9) and \
                    float((np.abs(R - Ko[np.ix_(free, free)]) / den)[keep].max()) <= RICH:
                mech = 'clpt_sanders_bc3-kernel-first-harmonic-component'
        for nm, Kd in cands:
            e2 = [float((np.abs(Ks[s_] - Kd[np.ix_(free, free)]) / den).max()) for s_ in (10, 20, 40, 80)]
            ok2 = all(3.0 <= a / max(b, 1e-300) <= 5.0 for a, b in zip(e2[:-1], e2[1:]) if a > 1e-9)
            if ok2 and float((np.abs(R - Kd[np.ix_(free, free)]) / den).max()) <= RICH:
                mech = nm
    c.expect('cone k0 converges to the continuous-radius energy like s^-2', rates_ok, 'errors for s=10,20,40,80: %r' % (errs,), mechanism=mech)
    c.judge('Richardson limit of the sectioned cone k0 equals the energy Hessian', rich, RICH, mechanism=mech)
    return c


def case_cone0(c, rng, tier):
    """dedicated cylinder kernels vs cone kernels evaluated at alpharad = 0 (both really execute)"""
    import compmech.conecyl.modelDB as M
    d = gen.shell_desc(rng, cone=False, mmax=4, nmax=3)
    c.desc['shell'] = d
    c.tag('model:' + d['model'], 'geom:cylinder')
    cc = gen.build_shell(d)
    cc._rebuild()
    lin = M.db[d['model']]['linear']
    m1, m2, n2, s = cc.m1, cc.m2, cc.n2, cc.s
    Fc, P, T = [float(v) for v in rng.normal(size=3) * 10 ** rng.uniform(0, 4)]
    c.desc.update(Fc=Fc, P=P, T=T)
    if d['model'].startswith('iso_'):
        A = lin.fk0(0.0, cc.r2, cc.L, cc.E11, cc.nu, cc.h, m1, m2, n2, s)
        B = lin.fk0_cyl(cc.r2, cc.L, cc.E11, cc.nu, cc.h, m1, m2, n2)
        ling = M.db[d['model'][4:]]['linear']
    else:
        F, _ = shell.laminate_F(d, cc.K)
        F = np.ascontiguousarray(F)
        A = lin.fk0(0.0, cc.r2, cc.L, F, m1, m2, n2, s)
        B = lin.fk0_cyl(cc.r2, cc.L, F, m1, m2, n2)
        ling = lin
    A = make_symmetric_dense(A); B = make_symmetric_dense(B)
    sc = np.abs(A) + np.abs(B); sc = sc + 1e-5 * sc.max() + 1e-300
    mech = None
    err = float((np.abs(A - B) / sc).max())
    if err > 1e-8:
        lay = layout(d['model'][4:] if d['model'].startswith('iso_') else d['model'], m1, m2, n2)
        if d['model'] == 'clpt_donnell_bc2' and close(A, drop_i2_first_u_rows(B, lay)):
            mech = 'clpt_donnell_bc2-cone-kernel-skips-harmonic-blocks'
        elif d['model'] == 'fsdt_sanders_bcn':
            if close(B, halve_first_i2_block(A, lay)):
                mech = 'fsdt_sanders_bcn-cyl-kernel-halves-first-i2-block'
            else:
                # coarse classifier (model level): this model's cone and cylinder kernels disagree in several blocks
                mech = 'fsdt_sanders_bcn-cone-and-cylinder-kernels-disagree'
        elif d['model'] == 'fsdt_donnell_bcn':
            # location-confined classifier (no exact model): first three amplitudes x axisymmetric columns only
            M_ = (np.abs(A - B) / sc) > 1e-8
            M_[:3, lay['num0']:lay['n_ax']] = False; M_[lay['num0']:lay['n_ax'], :3] = False
            if not M_.any():
                mech = 'fsdt_donnell_bcn-cone-kernel-k0_01-block'
    c.judge('fk0 at zero semi-vertex angle equals fk0_cyl', err, 1e-8, mechanism=mech)
    GA = make_symmetric_dense(ling.fkG0(Fc, P, T, cc.r2, 0.0, cc.L, m1, m2, n2, s))
    GB = make_symmetric_dense(ling.fkG0_cyl(Fc, P, T, cc.r2, cc.L, m1, m2, n2))
    sc = np.abs(GA) + np.abs(GB); sc = sc + 1e-5 * sc.max() + 1e-300
    errG = float((np.abs(GA - GB) / sc).max())
    c.judge('fkG0 at zero semi-vertex angle equals fkG0_cyl', errG, 1e-8,
            mechanism='fsdt_sanders_bcn-cone-and-cylinder-kernels-disagree' if (errG > 1e-8 and d['model'] == 'fsdt_sanders_bcn') else None)
    c.nontrivial = True
    return c


def case_iso(c, rng, tier):
    model = str(rng.choice(gen.ISO_MODELS))
    d = gen.shell_desc(rng, models=[model], mmax=4, nmax=3)
    c.desc['shell'] = d
    c.tag('model:' + model, 'geom:cone' if d['alphadeg'] else 'geom:cylinder')
    g = dict(d); g['model'] = model[4:]
    for k in ('E11', 'nu', 'h'):
        g.pop(k)
    g['stack'] = [0.]; g['plyt'] = d['h']; g['laminaprop'] = [d['E11'], d['E11'], d['nu']]
    Ka = k0_of(gen.build_shell(d)); Kb = k0_of(gen.build_shell(g))
    sc = np.abs(Ka) + np.abs(Kb); sc = sc + 1e-6 * sc.max() + 1e-300
    err = float((np.abs(Ka - Kb) / sc).max())
    mech = None
    if err > 1e-9:
        lay = layout(model[4:], d['m1'], d['m2'], d['n2'])
        if close(Ka, stale_index(Kb, lay), 1e-8):
            mech = 'iso-kernels-k0_01-stale-index'
        elif model == 'iso_clpt_donnell_bc2' and d['alphadeg'] != 0:
            # the general clpt_donnell_bc2 cone kernel drops rows the iso kernel has: compare outside them
            Km = drop_i2_first_u_rows(Ka, lay)
            if close(Km, stale_index(drop_i2_first_u_rows(Kb, lay), lay), 1e-8):
                mech = 'clpt_donnell_bc2-cone-kernel-skips-harmonic-blocks'
    c.judge('isotropic short-cut model equals the general model fed an isotropic laminate', err, 1e-9, mechanism=mech)
    c.nontrivial = True
    return c


def case_kG0(c, rng, tier):
    d = gen.shell_desc(rng, mmax=4, nmax=3)
    c.desc['shell'] = d
    c.tag('model:' + d['model'], 'geom:cone' if d['alphadeg'] else 'geom:cylinder')
    loads = [float(v) for v in rng.normal(size=3) * 10 ** rng.uniform(0, 4)]
    c.desc['loads'] = loads

    def kG(Fc, P, T, combined=None):
        cc = gen.build_shell(d)
        cc.Fc = Fc; cc.P = P; cc.T = T
        cc._calc_linear_matrices(combined_load_case=combined, silent=True)
        if combined:
            return cc.kG0_Fc.toarray(), cc.kG0_P.toarray(), cc.kG0_T.toarray()
        return cc.kG0.toarray()
    G = kG(*loads)
    c.expect('kG0 symmetric', np.array_equal(G, G.T))
    parts = kG(*loads, combined=1)
    sc = sum(np.abs(p) for p in parts) + np.abs(G); sc = sc + 1e-6 * sc.max() + 1e-300
    c.judge('combined-load split adds up to the combined matrix', float((np.abs(G - sum(parts)) / sc).max()), 1e-9)
    units = [kG(1., 0., 0.), kG(0., 1., 0.), kG(0., 0., 1.)]
    lin = sum(l * u for l, u in zip(loads, units))
    sc = sum(abs(l) * np.abs(u) for l, u in zip(loads, units)) + 1e-300
    c.judge('kG0 linear in axial force, pressure and torque', float((np.abs(G - lin) / (sc + 1e-6 * sc.max())).max()), 1e-9)
    # the axial load given as the line load at the top edge (scalar, or the array of its circumferential harmonics) instead of the
    # force: Nxxtop[0] = Fc / (2 pi r2 cos(alpha)) is the relation the class documents and applies itself when Fc is given
    form = str(rng.choice(['scalar', 'array']))
    c.tag('axial:' + form)
    cc = gen.build_shell(d)
    cc._rebuild()
    N0 = loads[0] / (2 * np.pi * cc.r2 * np.cos(cc.alpharad))
    cn = gen.build_shell(d)
    cn.Fc = None; cn.P = loads[1]; cn.T = loads[2]
    if form == 'scalar':
        cn.Nxxtop = float(N0)
    else:
        arr = np.zeros(2 * d['n2'] + 1); arr[0] = N0
        cn.Nxxtop = arr
    try:
        cn._calc_linear_matrices(silent=True)
        Gn = cn.kG0.toarray()
    except Exception as e:
        c.info['nxxtop_rejected'] = '%s: %s' % (type(e).__name__, str(e)[:80])
        Gn = None
    if Gn is not None:
        c.judge('axial load given as the top line load equals the same load given as a force', float((np.abs(Gn - G) / (sc + 1e-6 * sc.max())).max()), 1e-9,
                data={'form': form})
    c.nontrivial = True
    return c


def case_edges(c, rng, tier):
    """elastic edge restraints: k0(with restraints) - k0(all restraint constants zero), both from the real
    _calc_linear_matrices, equals the Hessian of sum_edges sum_q 1/2 k_q int q^2 r dtheta of the package's own
    displacement field with the constants of this object - every constant different, so a constant reaching the
    wrong slot, edge or component cannot hide"""
    with_edges = [m for m in gen.CLPT_MODELS + gen.ISO_MODELS + gen.FSDT_MODELS if springs_of(m)]
    d = gen.shell_desc(rng, models=[with_edges[c.round % len(with_edges)]], mmax=3 if tier == 'quick' else 5, nmax=3)
    springs = springs_of(d['model'])
    if not springs:
        return c.reject('model without elastic edge restraints')
    style = str(rng.choice(['distinct', 'one', 'sparse']))
    names = [nm + e for nm in springs for e in ('Bot', 'Top')]
    for nm in names:
        d[nm] = float(10 ** rng.uniform(4, 9))
    if style == 'one':
        keep = str(rng.choice(names))
        for nm in names:
            if nm != keep:
                d[nm] = 0.0
    elif style == 'sparse':
        for nm in names:
            if rng.random() < 0.4:
                d[nm] = 0.0
        if not any(d[nm] for nm in names):
            d[names[0]] = 1e6
    c.desc['shell'] = d
    c.tag('model:' + d['model'], 'geom:cone' if d['alphadeg'] else 'geom:cylinder', 'springs:' + style)
    c.nontrivial = True
    cc = build_with_history(rng, d, c)
    K1 = k0_of(cc)
    d0 = dict(d)
    for nm in names:
        d0[nm] = 0.0
    K0 = k0_of(gen.build_shell(d0))
    # the three base-function amplitudes (shortening, twist, load asymmetry) move the loaded ring itself; the
    # restraints act on the series part relative to that ring, and the kernels leave those rows empty by design
    free = np.setdiff1d(np.arange(K1.shape[0]), np.union1d(cc.excluded_dofs, [0, 1, 2]))
    ix = np.ix_(free, free)
    Ko, S = shell.edge_energy(strain_twin(d), d, springs)
    S = S + 1e-4 * np.abs(K0)
    ratio, ij = entrywise_excess((K1 - K0)[ix], Ko[ix], S[ix], 1e-9)
    c.judge('edge-restraint part of k0 equals the Hessian of the edge spring energy with this object\'s constants', ratio * 1e-9, 1e-9,
            data={'entry': [int(free[ij[0]]), int(free[ij[1]])], 'code': float((K1 - K0)[ix][ij]), 'oracle': float(Ko[ix][ij])})
    return c


def case_structure(c, rng, tier):
    d = gen.shell_desc(rng, models=gen.FSDT_MODELS + gen.CLPT_MODELS, mmax=4, nmax=3)
    c.desc['shell'] = d
    c.tag('model:' + d['model'], 'geom:cone' if d['alphadeg'] else 'geom:cylinder')
    cc = gen.build_shell(d)
    K = k0_of(cc)
    c.expect('k0 symmetric', np.array_equal(K, K.T))
    ev = np.linalg.eigvalsh(K)
    mech = None
    if -ev.min() > 1e-9 * ev.max():
        lay = layout(d['model'], cc.m1, cc.m2, cc.n2)
        Ks_ = k0_surface(cc)
        if d['model'] == 'fsdt_sanders_bcn' and d['alphadeg'] == 0:
            idx = harm_cols_i2(lay, lay['i0'])
            Kf = Ks_.copy(); Kf[np.ix_(idx, idx)] *= 2.0          # undo the hypothesised factor 1/2
            e2 = np.linalg.eigvalsh(Kf)
            if -e2.min() <= 1e-9 * e2.max():
                mech = 'fsdt_sanders_bcn-cyl-kernel-halves-first-i2-block'
        elif d['model'] == 'fsdt_donnell_bcn' and d['alphadeg'] != 0:
            Kf = Ks_.copy(); Kf[:3, lay['num0']:lay['n_ax']] = 0; Kf[lay['num0']:lay['n_ax'], :3] = 0
            e2 = np.linalg.eigvalsh(Kf)
            if -e2.min() <= 1e-9 * e2.max():
                mech = 'fsdt_donnell_bcn-cone-kernel-k0_01-block'
    c.judge('k0 positive semi-definite', max(0.0, -ev.min()), 1e-9 * ev.max(), mechanism=mech)
    c.expect('k0 has the model size', K.shape[0] == cc.get_size())
    # partition book-keeping used by the analyses
    kuu = cc.k0uu.toarray()
    free = np.setdiff1d(np.arange(K.shape[0]), cc.excluded_dofs)
    c.expect('k0uu is k0 without the prescribed rows and columns', np.array_equal(kuu, K[np.ix_(free, free)]))
    c.nontrivial = True
    return c
