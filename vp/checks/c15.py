"""C15 - Ritz eigenvalues are upper bounds converging down to closed forms.

Monitor: the package pipeline end-to-end (laminate -> calc_k0/kG0/kM -> lb /
freq) observed at increasing series orders; oracles: min-max monotonicity
between the observed sequences and the classical double-sine closed forms
evaluated with the O1 bending stiffnesses."""
import numpy as np

from .. import gen
from ..core import Case
from ..oracles import clt, eig


def plan(tier):
    n = 96 if tier == 'quick' else 1600
    return dict(n_cases=n, shards=16, min_nontrivial=n // 3,
                min_tags={'part:closed_form': n // 4, 'part:monotone': n // 4, 'solver:package': n // 8, 'lam:perply': n // 12},
                watchdog_s=2400 if tier == 'quick' else 14000,
                rule='(a) closed-form part: simply supported specially orthotropic plates (cross-ply / single-ply laminates, uniform or with per-ply thicknesses and materials mirrored about the mid-plane, with B=D16=D26=0 asserted on '
                     'the returned laminate), aspect ratios 0.2..5 incl. integers, compressive load ratios Nyy/Nxx in [0,3], orders m=n=6,8,..,16; '
                     '(b) monotonicity part: arbitrary laminates, all four models, restraint patterns with PD stiffness, random order increments in '
                     'either direction; non-trivial = sweep with >= 3 orders; distinct = hash of the description',
                assumptions=['closed forms: N_cr(p,q) = pi^2[D11 (p/a)^4 + 2(D12+2D66)(p/a)^2(q/b)^2 + D22 (q/b)^4]/((p/a)^2 + kappa (q/b)^2); '
                             'omega^2(p,q) = pi^4[...]/(mu h [1 + h^2/12 pi^2((p/a)^2+(q/b)^2)]) (rotary inertia as in the package mass matrix)',
                             'one-sided tolerance 1e-9 relative; order-16 error bound 1e-6 for <= 3 half-waves, 1e-3 for <= 6'])


def lowest(K, G=None, M=None, k=6, use_package=False, sparse=False):
    if use_package:
        import scipy.sparse as sp
        from compmech.analysis import lb, freq
        if G is not None:
            ev, _ = lb(sp.csr_matrix(K), sp.csr_matrix(G), tol=0, sparse_solver=sparse, silent=True, num_eigvalues=k)
            ev = np.real(np.asarray(ev))
            ev = np.sort(ev[(ev > 0) & np.isfinite(ev)])
            return ev[:k]
        ev, _ = freq(sp.csr_matrix(K), sp.csr_matrix(M), tol=0, sparse_solver=sparse, silent=True, sort=True, num_eigvalues=k)
        return np.real(np.asarray(ev))[:k]
    if G is not None:
        return eig.ref_buckling(K, G)[0][:k]
    return eig.ref_freq(K, M)[0][:k]


def closed_forms(a, b, D, kappa, mu, h, nmax=14):
    D11, D12, D22, D66 = D[0, 0], D[0, 1], D[1, 1], D[2, 2]
    N = []; W = []
    for p in range(1, nmax + 1):
        for q in range(1, nmax + 1):
            al, be = p / a, q / b
            num = np.pi ** 2 * (D11 * al ** 4 + 2 * (D12 + 2 * D66) * al ** 2 * be ** 2 + D22 * be ** 4)
            N.append((num / (al ** 2 + kappa * be ** 2), p, q))
            w2 = np.pi ** 2 * num / (mu * h * (1 + h ** 2 / 12. * np.pi ** 2 * (al ** 2 + be ** 2)))
            W.append((np.sqrt(w2), p, q))
    N.sort(); W.sort()
    return N, W


def case_closed(rng, tier):
    from compmech.panel import Panel
    ar = float(rng.choice([0.2, 0.5, 1., 2., 3., 5.])) if rng.random() < 0.4 else float(10 ** rng.uniform(np.log10(0.2), np.log10(5)))
    a = gen.logu(rng, 0.2, 3); b = a / ar
    nply = int(rng.integers(1, 7))
    mat = gen.material(rng, 6)
    if rng.random() < 0.3:
        stack = [float(rng.choice([0., 90.]))]
    else:
        half = [float(rng.choice([0., 90.])) for _ in range(max(1, nply // 2))]
        stack = half + half[::-1]
    t = min(a, b) * gen.logu(rng, 3e-4, 2e-2) / len(stack)       # down to span/thickness = 3000: the dense paths then see spectra spanning > 1e8
    kappa = float(rng.choice([0., 1., 0.5])) if rng.random() < 0.5 else float(rng.uniform(0, 3))
    mu = gen.logu(rng, 1e2, 1e4)
    use_pkg = bool(rng.random() < 0.5)
    sparse = bool(rng.random() < 0.5)
    # per-ply form: thicknesses (and in some cases materials) differ from ply to ply, mirrored about the mid-plane so that the
    # laminate stays specially orthotropic
    nst = len(stack)
    plyts = [t] * nst
    mats = [mat] * nst
    perply = nst >= 2 and rng.random() < 0.4
    if perply:
        fac = [float(gen.logu(rng, 0.3, 4)) for _ in range((nst + 1) // 2)]
        plyts = [t * fac[min(i, nst - 1 - i)] for i in range(nst)]
        if rng.random() < 0.4:
            m2 = gen.material(rng, 6)
            pick = [bool(rng.random() < 0.5) for _ in range((nst + 1) // 2)]
            mats = [m2 if pick[min(i, nst - 1 - i)] else mat for i in range(nst)]
    c = Case({'part': 'closed_form', 'a': a, 'b': b, 'stack': stack, 'plyts': plyts, 'laminaprops': [list(x) for x in mats], 'kappa': kappa, 'mu': mu,
              'package_solvers': use_pkg, 'sparse': sparse})
    force_ortho = bool(rng.random() < 0.3)
    c.desc['force_orthotropic_laminate'] = force_ortho
    c.tag('part:closed_form', 'solver:package' if use_pkg else 'solver:reference', 'lam:perply' if perply else 'lam:uniform', 'force_ortho:' + ('on' if force_ortho else 'off'))
    F, _ = clt.ABD6(stack, plyts, mats, 0.)
    D = F[3:, 3:]
    h = float(sum(plyts))
    Nex, Wex = closed_forms(a, b, D, kappa, mu, h)
    # reference load sub-critical (the package's sparse buckling path looks for multipliers next to 1)
    N0 = Nex[0][0] / float(rng.uniform(1.5, 20))
    c.desc['N0'] = N0
    orders = [6, 8, 10, 12, 14, 16] if tier != 'quick' or rng.random() < 0.5 else [6, 9, 12, 16]
    k = 4
    errsN = []; errsW = []
    for mn in orders:
        if perply:
            p = Panel(a=a, b=b, m=mn, n=mn, stack=stack, mu=mu)
            p.plyts = list(plyts); p.laminaprops = [tuple(x) for x in mats]
        else:
            p = Panel(a=a, b=b, m=mn, n=mn, stack=stack, plyt=t, laminaprop=tuple(mat), mu=mu)
        if force_ortho:
            p.force_orthotropic_laminate = True      # a no-op for these laminates (B = D16 = D26 = 0 already)
        p.Nxx = -N0; p.Nyy = -kappa * N0
        K = p.calc_k0(silent=True).toarray()
        G = p.calc_kG0(silent=True).toarray()
        M = p.calc_kM(silent=True).toarray()
        if mn == orders[0]:
            L = np.asarray(p.lam.ABD)
            sc = np.abs(L).max()
            c.expect('laminate is specially orthotropic (B = D16 = D26 = 0)', np.abs(L[:3, 3:]).max() < 1e-9 * np.abs(L[:3, :3]).max() * h
                     and abs(L[3, 5]) + abs(L[4, 5]) < 1e-9 * np.abs(L[3:, 3:]).max())
        actK = eig.active_set(K)
        wK = np.linalg.eigvalsh(K[np.ix_(actK, actK)])
        tol1 = 1e-9 + 50 * 2.3e-16 * wK.max() / wK.min()
        try:
            lam = lowest(K, G=G, k=k, use_package=use_pkg, sparse=sparse)
            om = lowest(K, M=M, k=k, use_package=use_pkg, sparse=sparse)
        except Exception as e:
            return c.reject('%s in eigen-solution at order %d: %s' % (type(e).__name__, mn, str(e)[:80]))
        c.hit('orders')
        lam = lam * N0
        kk = min(k, len(lam))
        exN = np.array([x[0] for x in Nex[:kk]])
        relN = (lam[:kk] - exN) / exN
        c.judge('Ritz buckling loads never fall below the closed-form values (order %d)' % mn if False else 'Ritz buckling loads never fall below the closed-form values',
                max(0.0, float(-relN.min())) if kk else 0., tol1, data={'order': mn, 'ritz': lam[:kk], 'exact': exN})
        kk2 = min(k, len(om))
        exW = np.array([x[0] for x in Wex[:kk2]])
        relW = (om[:kk2] - exW) / exW
        c.judge('Ritz frequencies never fall below the closed-form values', max(0.0, float(-relW.min())) if kk2 else 0., tol1,
                data={'order': mn, 'ritz': om[:kk2], 'exact': exW})
        errsN.append(float(relN[0]) if kk else np.nan)
        errsW.append(float(relW[0]) if kk2 else np.nan)
    c.info['errN'] = errsN; c.info['errW'] = errsW
    for nm, errs in (('buckling load', errsN), ('frequency', errsW)):
        e = np.array(errs)
        ok = all(e[i + 1] <= e[i] * (1 + 1e-6) + 2 * tol1 for i in range(len(e) - 1))   # tol1: round-off floor at the last order
        c.expect('error of the lowest %s decreases with the series order' % nm, ok, 'errors %r' % (errs,))
    hw = max(Nex[0][1], Nex[0][2])
    bound = 1e-6 if hw <= 3 else (1e-3 if hw <= 6 else None)
    if bound is not None:
        c.judge('lowest buckling load converged at 16 terms', abs(errsN[-1]), bound, data={'half_waves': hw})
    hw = max(Wex[0][1], Wex[0][2])
    c.judge('lowest frequency converged at 16 terms', abs(errsW[-1]), 1e-6 if hw <= 3 else 1e-3)
    c.nontrivial = len(orders) >= 3
    return c


def case_monotone(rng, tier):
    model = str(rng.choice(['plate', 'cpanel', 'kpanel', 'plate_w']))
    fl = gen.flags(rng, style=str(rng.choice(['ss', 'clamped', 'binary', 'mixed', 'real'])))
    for dname in 'uvw':
        fl[dname + '1tx'] = 0.0
        fl[dname + '1ty'] = 0.0
    d = gen.panel_desc(rng, model=model, mmax=6, place=False, sub=bool(rng.random() < 0.2), fl=fl)
    d['m'] = max(d['m'], 4); d['n'] = max(d['n'], 4)
    N = [float(-abs(rng.normal())), float(rng.normal()), float(rng.normal())]
    c = Case({'part': 'monotone', 'panel': d, 'N': N})
    c.tag('part:monotone', 'model:' + model)
    seqs = []
    m, n = d['m'], d['n']
    orders = [(m, n)]
    for _ in range(3):
        m += int(rng.integers(0, 4)); n += int(rng.integers(0, 4))
        if (m, n) != orders[-1]:
            orders.append((m, n))
    c.desc['orders'] = orders
    k = 6
    prevL = prevW = None
    for (m, n) in orders:
        dd = dict(d); dd['m'] = m; dd['n'] = n
        p = gen.build_panel(dd)
        p.Nxx, p.Nyy, p.Nxy = N
        try:
            K = p.calc_k0(silent=True).toarray(); G = p.calc_kG0(silent=True).toarray(); M = p.calc_kM(silent=True).toarray()
            act = eig.active_set(K)
            wK = np.linalg.eigvalsh(K[np.ix_(act, act)])
            if act.size == 0 or wK.min() <= 1e-12 * wK.max():
                return c.reject('outside the domain: stiffness not positive definite on its active amplitudes')
            lam = eig.ref_buckling(K, G)[0][:k]
            om = eig.ref_freq(K, M)[0][:k]
        except np.linalg.LinAlgError as e:
            return c.reject('LinAlgError: %s' % str(e)[:80])
        c.hit('orders')
        cond = wK.max() / wK.min()
        tol = 1e-9 + 50 * 2.3e-16 * cond
        if prevL is not None:
            kk = min(len(prevL), len(lam))
            if kk:
                up = float(((lam[:kk] - prevL[:kk]) / prevL[:kk]).max())
                c.judge('adding terms never raises a buckling multiplier', max(0.0, up) / max(1.0, float(prevL[:kk].max() / prevL[0]) * 1e-2), tol,
                        data={'orders': orders, 'before': prevL[:kk], 'after': lam[:kk]})
            c.expect('adding terms never removes positive multipliers', len(lam) >= min(len(prevL), k) or len(lam) == k)
            kk = min(len(prevW), len(om))
            up = float(((om[:kk] - prevW[:kk]) / prevW[:kk]).max())
            c.judge('adding terms never raises a natural frequency', max(0.0, up), tol, data={'before': prevW[:kk], 'after': om[:kk]})
        prevL, prevW = lam, om
    c.nontrivial = len(orders) >= 3
    return c


def run_case(rng, tier, idx):
    if idx % 2 == 0:
        return case_closed(rng, tier)
    return case_monotone(rng, tier)
