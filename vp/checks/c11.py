"""C11 - recovered displacement / strain / stress fields match the Ritz series
and the Donnell kinematics.

Monitor: every value returned by the real Panel.uvw / strain / stress,
PanelAssembly.uvw / strain / stress and StiffPanelBay.uvw_skin /
uvw_stiffener is compared with a numpy evaluation of the series from ctypes
basis values (C library functions judged exactly by C10); invariance under
point permutation / batching / thread count is checked bit-exactly."""
import numpy as np

from .. import gen
from ..core import Case
from ..oracles import clt, series

TOL = 1e-11


def plan(tier):
    n = 480 if tier == 'quick' else 6000
    return dict(sanitize={'extensions': ['compmech.panel.models.clt_bardell_field', 'compmech.panel.models.clt_bardell_field_w'], 'n_cases': 160}, n_cases=n, shards=16, min_nontrivial=n // 3,
                min_tags={'obj:panel': n // 3, 'obj:assembly': n // 12, 'obj:bay': n // 12, 'NLterms:on': n // 8, 'NLterms:off': n // 8,
                          'model:cpanel': n // 10, 'model:plate_w': n // 30, 'order:fresh': n // 6, 'clause:redefined': n // 12},
                watchdog_s=1800 if tier == 'quick' else 10000,
                rule='40% of the objects fresh (field queries are the first calls), the others after calc_k0; stress judged with the laminate matrix of the description; random amplitude vectors (dense / single-term / w-only / in-plane only), point sets scattered, gridded, on edges and '
                     'corners, 1..200 points incl. primes and counts below the thread count, thread counts 1..16, flat / w-only / cylindrical '
                     'models, both NLterms settings, panels inside assemblies (default grids) and stiffened bays with stiffeners in mixed '
                     'order; non-trivial = dense amplitudes and >= 2 points; distinct = hash of the description',
                assumptions=['tolerance 1e-11 of the absolute-value scale sum|c_k||basis_k| of each recovered value',
                             'reference basis values come from calc_vec_f/fxi/fxixi through ctypes (judged exactly by C10)'])


def points(rng, a, b, y1=0.0, y2=None):
    y2 = b if y2 is None else y2
    kind = str(rng.choice(['scatter', 'grid', 'edges', 'single', 'prime']))
    if kind == 'scatter':
        n = int(rng.integers(2, 201))
        xs = rng.uniform(0, a, n); ys = rng.uniform(0, b, n)
    elif kind == 'grid':
        gx = int(rng.integers(2, 15)); gy = int(rng.integers(2, 15))
        X, Y = np.meshgrid(np.linspace(0, a, gx), np.linspace(0, b, gy))
        xs, ys = X.ravel(), Y.ravel()
    elif kind == 'edges':
        n = int(rng.integers(4, 40))
        xs = rng.choice([0., a], n) * (rng.random(n) < 0.7) + rng.uniform(0, a, n) * 0
        xs = np.where(rng.random(n) < 0.5, rng.choice([0., a], n), rng.uniform(0, a, n))
        ys = np.where(rng.random(n) < 0.5, rng.choice([0., b], n), rng.uniform(0, b, n))
    elif kind == 'single':
        xs = rng.uniform(0, a, 1); ys = rng.uniform(0, b, 1)
    else:
        n = int(rng.choice([3, 5, 7, 11, 13, 17, 19, 23, 29, 31, 37, 97, 101, 199]))
        xs = rng.uniform(0, a, n); ys = rng.uniform(0, b, n)
    return np.ascontiguousarray(xs, dtype=float), np.ascontiguousarray(ys, dtype=float), kind


def amplitudes(rng, size, num, t):
    kind = str(rng.choice(['dense', 'dense', 'single', 'w_only', 'inplane']))
    c = rng.normal(size=size)
    if num == 3:
        c[2::3] *= t
        c[0::3] *= 0.05 * t
        c[1::3] *= 0.05 * t
        if kind == 'w_only':
            c[0::3] = 0; c[1::3] = 0
        elif kind == 'inplane':
            c[2::3] = 0
    else:
        c *= t
    if kind == 'single':
        k = int(rng.integers(0, size))
        v = c[k]
        c[:] = 0
        c[k] = v if v != 0 else 1e-3
    return c, kind


def reference(p, d, c, xs, ys, num):
    """reference fields and their absolute-value scales at the points"""
    a, b = p.a, p.b
    xi = 2 * xs / a - 1.
    et = 2 * ys / b - 1.
    r = d.get('r', 0.) if d['model'] == 'cpanel' else 0.
    U = series.disp_U(p, xi, et, a, b, num=num)
    B = series.donnell_B(p, xi, et, a, b, r=r, num=num, sina=0., cosa=1.)
    u = U @ c
    su = np.abs(U) @ np.abs(c)
    e = B @ c
    se = np.abs(B) @ np.abs(c)
    # per-term products needed by the defect model of the NL terms
    s = series.Series(p, xi, et, num)
    cw = c[2::3] if num == 3 else c
    tx = s.T('w', 1, 0) * cw      # [npts, m*n] : c_k f_k,xi g_k
    ty = s.T('w', 0, 1) * cw
    return u, su, e, se, tx, ty


def lam_F(d):
    """6x6 laminate matrix (and its absolute-value scale) from the description - not from the object under test"""
    lam = d['lam']
    return clt.ABD6(lam['stack'], lam['plyts'], lam['laminaprops'], lam['offset'], force_ortho=bool(lam.get('force_ortho')))


def judge_fields(c, p, d, cvec, xs, ys, num, label='', cin=None):
    """uvw / strain / stress of one Panel at the given points against the reference"""
    u_ref, su, e_ref, se, tx, ty = reference(p, d, cvec, xs, ys, num)
    ci = cvec if cin is None else cin      # the object handed to the package (same values, other memory layout)
    out = p.uvw(ci, xs=xs, ys=ys)
    c.hit('uvw')
    got = np.array([np.asarray(o).ravel() for o in out])
    names = ['u', 'v', 'w', 'phix', 'phiy']
    for k in range(5):
        if num == 1 and k < 2:
            continue
        c.judge(label + 'uvw: %s equals the series' % names[k], float((np.abs(got[k] - u_ref[k]) / (su[k] + 1e-300)).max()) if su[k].max() > 0 else float(np.abs(got[k]).max()), TOL)
    if num == 1:
        return got, None
    a, b = p.a, p.b
    wx = -u_ref[3]; wy = -u_ref[4]
    res = {}
    for NL in (False, True):
        st = p.strain(ci, xs=xs, ys=ys, NLterms=NL)
        c.hit('strain')
        c.tag('NLterms:on' if NL else 'NLterms:off')
        E = np.array([st[k].ravel() for k in ('exx', 'eyy', 'gxy', 'kxx', 'kyy', 'kxy')])
        ref = e_ref.copy()
        sc = se.copy()
        if NL:
            ref[0] += 0.5 * wx * wx
            ref[1] += 0.5 * wy * wy
            ref[2] += wx * wy
            sc[0] += 0.5 * su[3] ** 2; sc[1] += 0.5 * su[4] ** 2; sc[2] += su[3] * su[4]
        err = np.abs(E - ref) / (sc + 1e-300)
        err[sc == 0] = np.abs(E - ref)[sc == 0]
        mech = None
        if NL and err.max() > TOL:
            # defect model of the recorded finding: the quadratic slope terms are accumulated per
            # series term, sum_k (term_k)^2, instead of (sum_k term_k)^2 (cross terms lost)
            dm = e_ref.copy()
            dm[0] += 2. / (a * a) * (tx ** 2).sum(axis=1)
            dm[1] += 2. / (b * b) * (ty ** 2).sum(axis=1)
            dm[2] += 4. / (a * b) * (tx * ty).sum(axis=1)
            e2 = np.abs(E - dm) / (sc + 1e-300)
            e2[sc == 0] = np.abs(E - dm)[sc == 0]
            if e2.max() <= TOL:
                mech = 'strain-NLterms-sum-of-squares'
        c.judge(label + 'strain (NLterms=%s) equals the Donnell relations of the series' % NL, float(err.max()), TOL, mechanism=mech,
                data={'component': int(np.unravel_index(np.argmax(err), err.shape)[0])})
        res[NL] = E
        # stress = F * (the strains reported for the same request)
        if True:
            F, SF = lam_F(d)
            sg = p.stress(ci, xs=xs, ys=ys, NLterms=NL)
            c.hit('stress')
            S = np.array([sg[k].ravel() for k in ('Nxx', 'Nyy', 'Nxy', 'Mxx', 'Myy', 'Mxy')])
            Sref = F @ E
            ssc = SF @ np.abs(E) + 1e-300
            mech = None
            bad = float((np.abs(S - Sref) / ssc).max())
            if bad > 1e-12 and not NL:
                # defect model: stress() ignored NLterms and always used NLterms=True strains
                Et = p.strain(ci, xs=xs, ys=ys, NLterms=True)
                Et = np.array([Et[k].ravel() for k in ('exx', 'eyy', 'gxy', 'kxx', 'kyy', 'kxy')])
                if float((np.abs(S - F @ Et) / (SF @ np.abs(Et) + 1e-300)).max()) <= 1e-12:
                    mech = 'stress-ignores-NLterms'
            c.judge(label + 'stress (NLterms=%s) equals F times the strains of the same request' % NL, bad, 1e-12, mechanism=mech)
    return got, res


def run_case(rng, tier, idx):
    kind = str(rng.choice(['panel', 'panel', 'panel', 'assembly', 'bay']))
    if kind == 'panel':
        return case_panel(rng, tier)
    if kind == 'assembly':
        return case_assembly(rng, tier)
    return case_bay(rng, tier)


def case_panel(rng, tier):
    model = str(rng.choice(['plate', 'cpanel', 'plate', 'cpanel', 'plate_w']))
    d = gen.panel_desc(rng, model=model, mmax=8, sub=False, place=False)
    c = Case({'obj': 'panel', 'panel': d})
    c.tag('obj:panel', 'model:' + model)
    p = gen.build_panel(d)
    for k_ in gen.leftovers(rng, p):
        c.tag('left:' + k_)
    num = 1 if model == 'plate_w' else 3
    size = num * d['m'] * d['n']
    # 40%: the field queries are the first thing ever asked of the object (post-processing of amplitudes obtained elsewhere)
    fresh = bool(rng.random() < 0.4)
    c.tag('order:fresh' if fresh else 'order:k0_first')
    if not fresh:
        try:
            p.calc_k0(silent=True)
        except Exception as e:
            return c.reject('%s in calc_k0: %s' % (type(e).__name__, str(e)[:100]))
    t = float(sum(d['lam']['plyts']))
    cvec, ckind = amplitudes(rng, size, num, t)
    xs, ys, pkind = points(rng, d['a'], d['b'])
    nthreads = int(rng.integers(1, 17))
    p.out_num_cores = nthreads
    c.desc.update(amplitudes=ckind, points=pkind, npts=int(xs.size), threads=nthreads)
    c.tag('amp:' + ckind, 'pts:' + pkind, 'threads:%d' % nthreads)
    c.nontrivial = ckind == 'dense' and xs.size >= 2
    cb = cvec.copy(); xb = xs.copy(); yb = ys.copy()
    crep, rk = gen.vec_repr(rng, cvec)
    c.tag('repr:' + rk)
    got, res = judge_fields(c, p, d, cvec, xs, ys, num, cin=crep)
    c.expect('amplitude object not modified', np.array_equal(np.asarray(crep, dtype=float), cvec))
    c.expect('caller arrays not modified', np.array_equal(cb, cvec) and np.array_equal(xb, xs) and np.array_equal(yb, ys))
    # permutation equivariance / batching / thread count (bit-exact)
    perm = rng.permutation(xs.size)
    o2 = np.array([np.asarray(o).ravel() for o in p.uvw(cvec, xs=xs[perm].copy(), ys=ys[perm].copy())])
    c.expect('uvw: shuffling the points permutes the outputs', np.array_equal(o2, got[:, perm]))
    k = int(rng.integers(0, xs.size))
    o1 = np.array([np.asarray(o).ravel() for o in p.uvw(cvec, xs=xs[k:k + 1].copy(), ys=ys[k:k + 1].copy())])
    c.expect('uvw: one point at a time equals batched', np.array_equal(o1[:, 0], got[:, k]))
    other = int(rng.integers(1, 17))
    p.out_num_cores = other
    o3 = np.array([np.asarray(o).ravel() for o in p.uvw(cvec, xs=xs, ys=ys)])
    c.expect('uvw: independent of the thread count', np.array_equal(o3, got), 'threads %d vs %d' % (nthreads, other))
    # the same points handed over as 2-D arrays in other memory layouts: every output keeps the shape of the request and
    # element [i, j] belongs to the point (xs[i, j], ys[i, j])
    gx = int(rng.integers(2, 7)); gy = int(rng.integers(2, 7))
    if gx == gy:
        gx += 1
    X, Y = np.meshgrid(np.sort(rng.uniform(0, d['a'], gx)), np.sort(rng.uniform(0, d['b'], gy)))
    flat = [np.asarray(o).ravel() for o in p.uvw(cvec, xs=X.ravel().copy(), ys=Y.ravel().copy())]
    layout = str(rng.choice(['c_order', 'fortran', 'transposed_view', 'broadcast_view']))
    c.tag('layout:' + layout)
    if layout == 'c_order':
        X2, Y2, expect = X.copy(), Y.copy(), [f.reshape(X.shape) for f in flat]
    elif layout == 'fortran':
        X2, Y2, expect = np.asfortranarray(X), np.asfortranarray(Y), [f.reshape(X.shape) for f in flat]
    elif layout == 'transposed_view':
        X2, Y2, expect = X.copy().T, Y.copy().T, [f.reshape(X.shape).T for f in flat]
    else:
        X2, Y2 = np.meshgrid(X[0, :].copy(), Y[:, 0].copy(), copy=False)
        expect = [f.reshape(X.shape) for f in flat]
    try:
        out2 = p.uvw(cvec, xs=X2, ys=Y2)
    except Exception as e:
        c.info['layout_rejected'] = '%s: %s' % (type(e).__name__, str(e)[:80])
        out2 = None
    if out2 is not None:
        ok = all(np.asarray(o).shape == X2.shape and np.array_equal(np.asarray(o), e) for o, e in zip(out2[:3], expect[:3]))
        c.expect('uvw: 2-D point arrays in any memory layout give element-wise the same field', ok, layout)
        if res is not None:
            try:
                st2 = p.strain(cvec, xs=X2, ys=Y2, NLterms=False)
                st1 = p.strain(cvec, xs=X.ravel().copy(), ys=Y.ravel().copy(), NLterms=False)
                ok = all(np.array_equal(np.asarray(st2[kk]), (np.asarray(st1[kk]).reshape(X.shape).T if layout == 'transposed_view' else np.asarray(st1[kk]).reshape(X.shape)))
                         for kk in ('exx', 'eyy', 'gxy', 'kxx', 'kyy', 'kxy'))
                c.expect('strain: 2-D point arrays in any memory layout give element-wise the same field', ok, layout)
            except Exception as e:
                c.info['layout_rejected_strain'] = '%s: %s' % (type(e).__name__, str(e)[:80])
    if res is not None:
        for NL in (False, True):
            st = p.strain(cvec, xs=xs, ys=ys, NLterms=NL)
            E3 = np.array([st[kk].ravel() for kk in ('exx', 'eyy', 'gxy', 'kxx', 'kyy', 'kxy')])
            c.expect('strain: independent of the thread count', np.array_equal(E3, res[NL]), 'threads %d vs %d' % (nthreads, other))
            st = p.strain(cvec, xs=xs[perm].copy(), ys=ys[perm].copy(), NLterms=NL)
            E4 = np.array([st[kk].ravel() for kk in ('exx', 'eyy', 'gxy', 'kxx', 'kyy', 'kxy')])
            c.expect('strain: shuffling the points permutes the outputs', np.array_equal(E4, res[NL][:, perm]))
    # the same object after a redefinition (an edge flag, a dimension, the radius reassigned), queried again with the SAME
    # amplitudes and points: the fields are those of the panel as defined now
    if rng.random() < 0.4:
        c.tag('clause:redefined')
        # the last thing asked before the redefinition is exactly what is asked first afterwards
        p.uvw(cvec, xs=xs, ys=ys)
        if num == 3:
            if rng.random() < 0.5:
                p.stress(cvec, xs=xs, ys=ys, NLterms=False)
            else:
                p.strain(cvec, xs=xs, ys=ys, NLterms=False)
        d2 = dict(d); d2['flags'] = dict(d['flags'])
        what = str(rng.choice(['flag', 'flag', 'a', 'b', 'radius']))
        if what == 'radius' and 'r' not in d:
            what = 'flag'
        if what == 'flag':
            comp = 'w' if num == 1 else str(rng.choice(['u', 'v', 'w']))
            k_ = '%s%s%s%s' % (comp, str(rng.choice(['1', '2'])), str(rng.choice(['t', 'r'])), str(rng.choice(['x', 'y'])))
            d2['flags'][k_] = 0.0 if d['flags'].get(k_, 1.0) else 1.0
            setattr(p, k_, d2['flags'][k_])
        elif what in ('a', 'b'):
            # points stay where they are: shrink never, so that they remain inside the domain
            d2[what] = d[what] * float(rng.uniform(1.0, 2.5))
            setattr(p, what, d2[what])
        else:
            d2['r'] = d['r'] * float(rng.uniform(0.4, 2.5))
            p.r = d2['r']
        c.desc['redefinition'] = what
        c.tag('redef:' + what)
        judge_fields(c, p, d2, cvec, xs, ys, num, label='after redefinition (%s): ' % what)
    return c


def case_assembly(rng, tier):
    from compmech.panel.assembly import PanelAssembly
    npan = int(rng.integers(2, 5))
    ds = []
    for k in range(npan):
        d = gen.panel_desc(rng, model=str(rng.choice(['plate', 'cpanel'])), mmax=5, sub=False, place=False)
        ds.append(d)
    c = Case({'obj': 'assembly', 'panels': ds})
    c.tag('obj:assembly')
    ps = [gen.build_panel(d) for d in ds]
    groups = ['g%d' % int(rng.integers(0, 2)) for _ in ps]
    for p, g in zip(ps, groups):
        p.group = g
    order = list(rng.permutation(npan))
    ass = PanelAssembly([ps[i] for i in order])
    ass.out_num_cores = int(rng.integers(1, 9))
    size = ass.get_size()
    fresh = bool(rng.random() < 0.4)
    c.tag('order:fresh' if fresh else 'order:k0_first')
    if not fresh:
        for p in ps:
            p.calc_k0(silent=True)
    cfull = rng.normal(size=size) * 1e-3
    gx, gy = int(rng.integers(2, 8)), int(rng.integers(2, 8))
    c.desc.update(order=[int(i) for i in order], groups=groups, gridx=gx, gridy=gy)
    for g in sorted(set(groups)):
        members = [ps[i] for i in order if ps[i].group == g]
        mds = [ds[i] for i in order if ps[i].group == g]
        ru = ass.uvw(cfull, g, gridx=gx, gridy=gy)
        rs = {NL: ass.strain(cfull, g, gridx=gx, gridy=gy, NLterms=NL) for NL in (False, True)}
        rg = {NL: ass.stress(cfull, g, gridx=gx, gridy=gy, NLterms=NL) for NL in (False, True)}
        c.hit('assembly.uvw')
        c.expect('one result per panel of the group', len(ru['u']) == len(members))
        for k, (p, d) in enumerate(zip(members, mds)):
            cp = cfull[p.col_start:p.col_end]
            X, Y = np.meshgrid(np.linspace(0, p.a, gx), np.linspace(0, p.b, gy))
            xs, ys = X.ravel(), Y.ravel()
            u_ref, su, e_ref, se, tx, ty = reference(p, d, cp, xs, ys, 3)
            for j, nm in enumerate(['u', 'v', 'w', 'phix', 'phiy']):
                c.judge('assembly uvw uses the panel\'s own slice: ' + nm,
                        float((np.abs(ru[nm][k].ravel() - u_ref[j]) / (su[j] + 1e-300)).max()), TOL)
            for NL in (False, True):
                E = np.array([rs[NL][kk][k].ravel() for kk in ('exx', 'eyy', 'gxy', 'kxx', 'kyy', 'kxy')])
                ref = e_ref.copy(); sc = se.copy()
                if NL:
                    wx, wy = -u_ref[3], -u_ref[4]
                    ref[0] += 0.5 * wx * wx; ref[1] += 0.5 * wy * wy; ref[2] += wx * wy
                    sc[0] += 0.5 * su[3] ** 2; sc[1] += 0.5 * su[4] ** 2; sc[2] += su[3] * su[4]
                err = float((np.abs(E - ref) / (sc + 1e-300)).max())
                mech = None
                if NL and err > TOL:
                    dm = e_ref.copy()
                    dm[0] += 2. / (p.a ** 2) * (tx ** 2).sum(axis=1)
                    dm[1] += 2. / (p.b ** 2) * (ty ** 2).sum(axis=1)
                    dm[2] += 4. / (p.a * p.b) * (tx * ty).sum(axis=1)
                    if float((np.abs(E - dm) / (sc + 1e-300)).max()) <= TOL:
                        mech = 'strain-NLterms-sum-of-squares'
                c.judge('assembly strain (NLterms=%s) of the panel\'s own slice' % NL, err, TOL, mechanism=mech)
                c.tag('NLterms:on' if NL else 'NLterms:off')
                S = np.array([rg[NL][kk][k].ravel() for kk in ('Nxx', 'Nyy', 'Nxy', 'Mxx', 'Myy', 'Mxy')])
                F, SF = lam_F(d)
                c.judge('assembly stress equals F times the strains of the same request',
                        float((np.abs(S - F @ E) / (SF @ np.abs(E) + 1e-300)).max()), 1e-12)
    return c


def case_bay(rng, tier):
    d = gen.bay_desc(rng, mmax=5, nstiff=(0, 3), kinds=('blade1d', 'blade2d', 't2d'))
    c = Case({'obj': 'bay', 'bay': d})
    c.tag('obj:bay', 'curved' if 'r' in d else 'flat')
    try:
        bay = gen.build_bay(d)
        bay.calc_k0(silent=True)
    except Exception as e:
        return c.reject('%s building bay: %s' % (type(e).__name__, str(e)[:100]))
    size = bay.get_size()
    cfull = rng.normal(size=size) * 1e-3
    cb = cfull.copy()
    xs, ys, pkind = points(rng, d['a'], d['b'])
    bay.out_num_cores = int(rng.integers(1, 9))
    # skin: the first 3*m*n amplitudes with the bay's own flags
    pd = {'model': 'cpanel' if 'r' in d else 'plate', 'r': d.get('r', 0.)}
    skin = bay.panels[0]
    try:
        out = bay.uvw_skin(cfull, xs=xs, ys=ys)
    except Exception as e:
        return c.reject('%s in uvw_skin: %s' % (type(e).__name__, str(e)[:100]))
    c.hit('uvw_skin')
    nskin = 3 * bay.m * bay.n
    u_ref, su, _, _, _, _ = reference(skin, pd, cfull[:nskin], xs, ys, 3)
    got = np.array([np.asarray(o).ravel() for o in out])
    for j, nm in enumerate(['u', 'v', 'w', 'phix', 'phiy']):
        c.judge('bay uvw_skin equals the skin series: ' + nm, float((np.abs(got[j] - u_ref[j]) / (su[j] + 1e-300)).max()), TOL)
    # stiffeners: each 2-D stiffener region evaluated with its own slice.  The slice is the one the
    # matrices use: skin, then blade-2D flanges in insertion order, then T base+flange in insertion order
    off = nskin
    layout = {}
    for s in bay.bladestiff2ds:
        layout[id(s)] = {'flange': (off, off + s.flange.get_size())}
        off += s.flange.get_size()
    for s in bay.tstiff2ds:
        nb = s.base.get_size(); nf = s.flange.get_size()
        layout[id(s)] = {'base': (off, off + nb), 'flange': (off + nb, off + nb + nf)}
        off += nb + nf
    c.expect('bay size equals skin + 2-D stiffener blocks', off == size, '%d vs %d' % (off, size))
    for si, s in enumerate(bay.stiffeners):
        if id(s) not in layout:
            continue
        for region, (i0, i1) in layout[id(s)].items():
            sp = getattr(s, region)
            xs2 = rng.uniform(0, sp.a, 7); ys2 = rng.uniform(0, sp.b, 7)
            try:
                out = bay.uvw_stiffener(cfull, si, region=region, xs=xs2, ys=ys2)
            except Exception as e:
                c.info['uvw_stiffener_rejected'] = repr(e)[:120]
                continue
            c.hit('uvw_stiffener')
            c.tag('stiff:' + type(s).__name__ + ':' + region)
            spd = {'model': 'plate', 'r': 0.}
            u_ref, su, _, _, _, _ = reference(sp, spd, cfull[i0:i1], xs2, ys2, 3)
            got = np.array([np.asarray(o).ravel() for o in out])
            worst = max(float((np.abs(got[j] - u_ref[j]) / (su[j] + 1e-300)).max()) for j in range(5))
            c.judge('bay uvw_stiffener evaluates the stiffener region with its own slice of the amplitude vector', worst, TOL,
                    data={'stiffener_index': si, 'region': region, 'kinds_in_order': [type(x).__name__ for x in bay.stiffeners]})
    c.expect('caller amplitude vector not modified', np.array_equal(cb, cfull))
    c.nontrivial = True
    return c
