"""C04 - mass matrix = kinetic-energy Hessian; total mass; reference invariance.

Monitor: matrices returned by the real Panel.calc_kM compared entry-wise with
O2 (displacement recovery + 5x5 inertia form); total mass through rigid
translations; invariance of the free-plate spectrum under a shift of the
reference surface (two real executions of the whole K/M/freq pipeline)."""
import numpy as np
import scipy.linalg as sl

from .. import gen
from ..core import Case, entrywise_excess
from ..oracles import conical, energy, series

TOL = 1e-10


def plan(tier):
    n = 400 if tier == 'quick' else 4000
    return dict(n_cases=n, shards=16, min_nontrivial=n // 3,
                min_tags={'clause:stiffener_mass': n // 16, 'clause:bay_total_mass': n // 16, 'clause:blade1d_mass': n // 16, 'clause:entrywise': n // 3, 'clause:total_mass': n // 12, 'clause:invariance': n // 12,
                          'offset:nonzero': n // 6},
                watchdog_s=1800 if tier == 'quick' else 10000,
                rule='panels as in C02 (all four models, sub-intervals, placement), mu over six decades, offsets of both signs up to +-3t '
                     '(laminate generator) or +-5h; total-mass cases: unrestrained flat panels, any offset; invariance cases: single-ply '
                     'homogeneous free plates with m,n>=4 at two offsets; non-trivial = offset != 0 or sub-interval or non-ss flags; '
                     'distinct = hash of the panel description',
                assumptions=['kinematics U = u - z w,x with the plies at z in [d-h/2, d+h/2] (the laminate convention h0 = -t/2 + offset)',
                             'entry-wise tolerance 1e-10 of the absolute-value scale'])


def mass_oracle(p, d, doff):
    lam = d['lam']
    h = float(sum(lam['plyts']))
    mu = d['mu']
    if d['model'] == 'kpanel':
        return conical.kM_oracle(p, mu, h, doff)
    nx, ny = energy.exact_orders(p)
    xs, ys, w = energy.gauss_grid(p, nx, ny)
    if d['model'] == 'plate_w':
        U = series.disp_U(p, 2 * xs / p.a - 1., 2 * ys / p.b - 1., p.a, p.b, num=1)
    else:
        U = energy.disp_basis(p, xs, ys)
    return energy.quad_form(U, conical.inertia5(mu, h, doff), w)


def case_blade1d(rng, tier):
    """mass contribution of a 1-D blade stiffener through StiffPanelBay.calc_kM (anchor: bladestiff1d kernel fkMf)"""
    from ..oracles import stiff1d
    d = gen.bay_desc(rng, mmax=5, nstiff=(1, 1), kinds=('blade1d',), ncuts=int(rng.integers(1, 3)),
                     fl=gen.flags(rng, style=str(rng.choice(['ss', 'clamped', 'mixed', 'free', 'binary']))))
    c = Case({'mode': 'blade1d', 'bay': d})
    c.tag('clause:blade1d_mass', 'curved' if 'r' in d else 'flat', 'base' if 'bb' in d['stiffeners'][0] else 'nobase')
    d0 = dict(d); d0['stiffeners'] = []
    try:
        b1 = gen.build_bay(d); b0 = gen.build_bay(d0)
        M1 = b1.calc_kM(silent=True).toarray(); M0 = b0.calc_kM(silent=True).toarray()
    except Exception as e:
        return c.reject('%s in bay.calc_kM: %s' % (type(e).__name__, str(e)[:100]))
    c.hit('StiffPanelBay.calc_kM')
    Ci = M1 - M0
    o = stiff1d.contribution(d, b1, 2, gen.apply_flags)
    S = o['S'] + np.abs(M0) * 1e-6
    sc = S + 1e-6 * S.max() + 1e-300
    err = float((np.abs(Ci - o['ref']) / sc).max())
    mech = None
    if err > 1e-9 and o['alt'] is not None and float((np.abs(Ci - o['alt']) / sc).max()) <= 1e-9:
        mech = 'blade1d-flange-mass-coupling-doubled'
    c.judge('1-D blade stiffener mass = base panel mass + kinetic energy of the flange on the line y=ys', err, 1e-9, mechanism=mech)
    c.nontrivial = True
    return c


def case_bay_mass(rng, tier):
    """total mass of a stiffened bay: an unrestrained flat bay moved rigidly along x (skin amplitudes only) carries the mass of
    the skin, of every stiffener base laminated on it and of the 1-D flanges, each with ITS OWN density"""
    d = gen.bay_desc(rng, curved=False, mmax=5, nstiff=(1, 3), kinds=('blade1d', 'blade2d', 'blade2d'), ncuts=int(rng.integers(1, 3)),
                     fl=gen.flags(rng, 'free'))
    c = Case({'mode': 'bay_mass', 'bay': d})
    c.tag('clause:bay_total_mass')
    try:
        bay = gen.build_bay(d)
        M = bay.calc_kM(silent=True).toarray()
    except Exception as e:
        return c.reject('%s in bay.calc_kM: %s' % (type(e).__name__, str(e)[:100]))
    c.hit('StiffPanelBay.calc_kM')
    size = M.shape[0]
    m_, n_ = d['m'], d['n']
    cv = np.zeros(size)
    for j in (0, 2):
        for i in (0, 2):
            cv[3 * (j * m_ + i) + 0] = 1.0
    h = d['plyt'] * len(d['stack'])
    total = d['mu'] * h * d['a'] * d['b']
    for s in d['stiffeners']:
        mu_s = s.get('mu', d['mu'])
        if 'bb' in s:
            total += mu_s * s['bplyt'] * len(s['bstack']) * d['a'] * s['bb']
        if s['kind'] == 'blade1d' and 'bf' in s:
            total += mu_s * s['bf'] * s['fplyt'] * len(s['fstack']) * d['a']
    got = float(cv @ M @ cv)
    c.judge('rigid x-translation of the bay skin carries skin + base + 1-D flange mass, each with its own density', abs(got - total), 1e-10 * total,
            data={'got': got, 'expected': total, 'stiffeners': [(s['kind'], 'bb' in s, s.get('mu')) for s in d['stiffeners']]})
    c.nontrivial = any('mu' in s for s in d['stiffeners'])
    return c


def case_stiff2d(rng, tier):
    """mass contribution of a 2-D stiffener (blade or T): the kinetic energy of its own panels, i.e. the sum of the panels' own
    mass matrices (each judged entry-wise by the other modes) at the amplitude ranges the class documents - the blade's base on
    the skin amplitudes and its flange on the private block; the T stiffener's base on the private block and its flange after
    the base"""
    kind = str(rng.choice(['blade2d', 't2d']))
    d = gen.bay_desc(rng, mmax=5, nstiff=(1, 1), kinds=(kind,), ncuts=int(rng.integers(1, 3)))
    c = Case({'mode': 'stiff2d', 'bay': d})
    c.tag('clause:stiffener_mass', 'stiff:' + kind)
    try:
        bay = gen.build_bay(d)
        size = bay.get_size()
        bay.calc_kM(silent=True)
        st = (bay.bladestiff2ds if kind == 'blade2d' else bay.tstiff2ds)[0]
        ns = 3 * bay.m * bay.n
        st.calc_kM(size=size, row0=ns, col0=ns, silent=True, finalize=True)
        Ms = st.kM.toarray()
        ref = np.zeros((size, size))
        if kind == 'blade2d':
            if st.base is not None:
                ref += st.base.calc_kM(size=size, row0=0, col0=0, silent=True).toarray()
            ref += st.flange.calc_kM(size=size, row0=ns, col0=ns, silent=True).toarray()
            nfl = st.flange.get_size(); nb = 0
        else:
            nb = st.base.get_size(); nfl = st.flange.get_size()
            ref += st.base.calc_kM(size=size, row0=ns, col0=ns, silent=True).toarray()
            ref += st.flange.calc_kM(size=size, row0=ns + nb, col0=ns + nb, silent=True).toarray()
    except Exception as e:
        return c.reject('%s in stiffener calc_kM: %s' % (type(e).__name__, str(e)[:100]))
    c.hit('stiffener.calc_kM')
    c.expect('bay size = skin + base + flange amplitudes of the stiffener', size == ns + nb + nfl, '%d vs %d' % (size, ns + nb + nfl))
    sc = np.abs(ref) + 1e-6 * np.abs(ref).max() + 1e-300
    c.judge('2-D stiffener kM = sum of its panels\' own kM at the documented amplitude ranges', float((np.abs(Ms - ref) / sc).max()), 1e-12,
            data={'kind': kind, 'base_terms': [getattr(st.base, 'm', None), getattr(st.base, 'n', None)] if st.base is not None else None,
                  'flange_terms': [st.flange.m, st.flange.n]})
    c.nontrivial = True
    return c


def run_case(rng, tier, idx):
    mode = str(rng.choice(['entry', 'entry', 'entry', 'mass', 'invariance', 'blade1d', 'bay_mass', 'stiff2d']))
    if mode == 'stiff2d':
        return case_stiff2d(rng, tier)
    if mode == 'blade1d':
        return case_blade1d(rng, tier)
    if mode == 'bay_mass':
        return case_bay_mass(rng, tier)
    if mode == 'entry':
        d = gen.panel_desc(rng, mmax=8)
        if rng.random() < 0.3:
            d['lam']['offset'] = float(rng.uniform(-5, 5) * sum(d['lam']['plyts']))
        c = Case({'panel': d, 'mode': mode})
        c.tag('model:' + d['model'], 'clause:entrywise', 'offset:nonzero' if d['lam']['offset'] else 'offset:zero')
        c.nontrivial = d['lam']['offset'] != 0 or 'y1' in d or d['flags']['_style'] != 'ss'
        p = gen.build_panel(d)
        for k_ in gen.leftovers(rng, p):
            c.tag('left:' + k_)
        num = 1 if d['model'] == 'plate_w' else 3
        size_p = num * d['m'] * d['n']
        # 40%: the mass matrix is the first thing asked of the object
        fresh = bool(rng.random() < 0.4)
        c.tag('order:fresh' if fresh else 'order:k0_first')
        try:
            if not fresh:
                p.calc_k0(silent=True)
            M = p.calc_kM(size=d['size'], row0=d['row0'], col0=d['row0'], silent=True)
        except Exception as e:
            return c.reject('%s in calc_kM: %s' % (type(e).__name__, str(e)[:100]))
        c.hit('calc_kM')
        blk, outside = energy.block(M, d['row0'], size_p)
        c.expect('zero outside the panel block', outside == 0.0)
        c.expect('exactly symmetric', np.array_equal(blk, blk.T))
        doff = d['lam']['offset']
        Mo, S = mass_oracle(p, d, doff)
        tol = (1e-9 if d['model'] == 'kpanel' else TOL) * gen.subinterval_amplification(d)
        ratio, ij = entrywise_excess(blk, Mo, S, tol)
        mech = None
        if ratio > 1 and doff != 0:
            # defect model of the known finding: the kernel's first-moment coupling has the sign of -d
            Mm, Sm = mass_oracle(p, d, -doff)
            r2, _ = entrywise_excess(blk, Mm, Sm, tol)
            if r2 <= 1:
                mech = 'mass-offset-coupling-sign'
        c.judge('kM equals the kinetic-energy Hessian (entry-wise)', ratio * tol, tol, mechanism=mech,
                data={'entry': ij, 'code': blk[ij], 'oracle': Mo[ij], 'scale': S[ij], 'offset': doff})
        ev = np.linalg.eigvalsh((blk + blk.T) / 2)
        c.judge('positive semi-definite', max(0.0, -ev.min()), 1e-9 * max(ev.max(), 1e-300))
        act = np.where(np.abs(blk).sum(axis=0) > 0)[0]
        if act.size:
            eva = np.linalg.eigvalsh(blk[np.ix_(act, act)])
            # mathematically PD; on narrow sub-intervals the polynomial Gram matrix is too ill-conditioned
            # for the sign of its smallest eigenvalue to be resolved in double precision
            c.judge('positive definite on the active amplitudes (up to round-off)', max(0.0, -eva.min()), 1e-11 * gen.subinterval_amplification(d) * eva.max())
            if 'y1' not in d and d['model'] != 'kpanel' and max(d['m'], d['n']) <= 6:
                c.expect('strictly positive definite on the active amplitudes (full domain)', eva.min() > 0,
                         'min %.3e max %.3e' % (eva.min(), eva.max()))
        return c
    if mode == 'mass':
        model = str(rng.choice(['plate', 'plate', 'plate_w']))
        d = gen.panel_desc(rng, model=model, mmax=7, fl=gen.flags(rng, 'free'), place=False)
        d['m'] = max(d['m'], 3); d['n'] = max(d['n'], 3)
        if rng.random() < 0.6:
            d['lam']['offset'] = float(rng.uniform(-5, 5) * sum(d['lam']['plyts']))
        c = Case({'panel': d, 'mode': mode})
        c.tag('model:' + d['model'], 'clause:total_mass', 'offset:nonzero' if d['lam']['offset'] else 'offset:zero')
        p = gen.build_panel(d)
        for k_ in gen.leftovers(rng, p):
            c.tag('left:' + k_)
        num = 1 if model == 'plate_w' else 3
        size_p = num * d['m'] * d['n']
        d['size'] = size_p
        fresh = bool(rng.random() < 0.4)
        c.tag('order:fresh' if fresh else 'order:k0_first')
        try:
            if not fresh:
                p.calc_k0(silent=True)
            M = p.calc_kM(silent=True).toarray()
        except Exception as e:
            return c.reject('%s in calc_kM: %s' % (type(e).__name__, str(e)[:100]))
        c.hit('calc_kM')
        h = float(sum(d['lam']['plyts']))
        ya = d.get('y1', 0.0); yb = d.get('y2', d['b'])
        total = d['mu'] * h * d['a'] * (yb - ya)
        m_, n_ = d['m'], d['n']
        for k, nm in enumerate('uvw' if num == 3 else 'w'):
            cvec = np.zeros(size_p)
            for j in (0, 2):
                for i in (0, 2):
                    cvec[num * (j * m_ + i) + (k if num == 3 else 0)] = 1.0
            got = float(cvec @ M @ cvec)
            c.judge('unit rigid translation in %s carries mu*h*area' % nm, abs(got - total), 1e-11 * total)
        return c
    # ---- reference-surface invariance of the free homogeneous plate
    a = gen.logu(rng, 0.1, 5); b = a * gen.logu(rng, 0.4, 2.5)
    t = min(a, b) * gen.logu(rng, 2e-3, 3e-2)
    if rng.random() < 0.5:
        mat = gen.material(rng, 3)
    else:
        mat = gen.material(rng, 6)
    ang = float(rng.choice([0., 90., 30., -45.])) if len(mat) > 3 else 0.
    m_ = int(rng.integers(4, 8)); n_ = int(rng.integers(4, 8))
    doffs = [0.0, float(rng.uniform(-2, 2) * t)]
    desc = {'mode': mode, 'a': a, 'b': b, 't': t, 'mat': list(mat), 'angle': ang, 'm': m_, 'n': n_, 'offsets': doffs,
            'mu': gen.logu(rng, 1e2, 1e4)}
    c = Case(desc)
    c.tag('clause:invariance', 'offset:nonzero')
    spectra = []
    from compmech.panel import Panel
    for doff in doffs:
        p = Panel(a=a, b=b, m=m_, n=n_, stack=[ang], plyt=t, laminaprop=tuple(mat), mu=desc['mu'], offset=doff)
        gen.apply_flags(p, gen.flags(rng, 'free'))
        try:
            K = p.calc_k0(silent=True).toarray()
            M = p.calc_kM(silent=True).toarray()
        except Exception as e:
            return c.reject('%s: %s' % (type(e).__name__, str(e)[:100]))
        c.hit('calc_kM')
        w2 = sl.eigh(K, M, eigvals_only=True)
        spectra.append(w2)
    # six rigid-body modes (3 translations, in-plane rotation, 2 out-of-plane rotations) have w2 ~ 0
    s0, s1 = spectra
    scale = s0[min(8, len(s0) - 1)]
    nz0 = s0[s0 > 1e-7 * scale][:10]
    nz1 = s1[s1 > 1e-7 * scale][:10]
    k = min(len(nz0), len(nz1))
    c.expect('same number of rigid-body modes', int((s0 <= 1e-7 * scale).sum()) == int((s1 <= 1e-7 * scale).sum()))
    rel = np.abs(np.sqrt(nz1[:k]) - np.sqrt(nz0[:k])) / np.sqrt(nz0[:k])
    mech = None
    if rel.max() > 1e-7:
        # defect model: combining K(d) with M(-d) restores the d = 0 spectrum
        p = Panel(a=a, b=b, m=m_, n=n_, stack=[ang], plyt=t, laminaprop=tuple(mat), mu=desc['mu'], offset=doffs[1])
        gen.apply_flags(p, gen.flags(rng, 'free'))
        K = p.calc_k0(silent=True).toarray()
        p.offset = -doffs[1]
        M = p.calc_kM(silent=True).toarray()
        s2 = sl.eigh(K, M, eigvals_only=True)
        nz2 = s2[s2 > 1e-7 * scale][:k]
        if len(nz2) == k and (np.abs(np.sqrt(nz2) - np.sqrt(nz0[:k])) / np.sqrt(nz0[:k])).max() < 1e-7:
            mech = 'mass-offset-coupling-sign'
    c.judge('free homogeneous plate: frequencies independent of the reference surface', rel.max(), 1e-7, mechanism=mech,
            data={'w_d0': np.sqrt(nz0[:4]), 'w_d': np.sqrt(nz1[:4]), 'd_over_t': doffs[1] / t})
    return c
