"""C01 - laminate ABD/ABDE = through-thickness integral of rotated ply stiffness.

Monitor: icontract post-condition on the real ``read_stack`` (every binding),
judged by the independent O1 oracle from the call's *arguments*.  Corollaries
are relations between further real executions."""
import numpy as np

from .. import gen, monitors
from ..core import Case
from ..oracles import clt

TOL = 1e-10


def plan(tier):
    n = 3000 if tier == 'quick' else 120000
    return dict(suite_monitor=True, n_cases=n, shards=16, min_nontrivial=200 if tier == 'quick' else 5000,
                min_hits={'read_stack': n // 2}, watchdog_s=1800 if tier == 'quick' else 7200,
                rule='random stacks of 1..24 plies (angle mixture incl. near-0/90 and integers; per-ply '
                     'thickness over 3 decades; 3/6/9-entry materials; offsets within +-3t; uniform and per-ply '
                     'argument forms); non-trivial = >=2 plies, some angle not a multiple of 90, and B!=0 or offset!=0; '
                     'distinct = hash of all read_stack arguments',
                assumptions=['tolerance 1e-10 of the entry-wise absolute-value scale computed by the oracle',
                             'E ordering [[Q44,Q45],[Q45,Q55]] as produced by calc_constitutive_matrix'])


def setup(tier):
    monitors.install_read_stack()


def judge_obs(c, o, tag=''):
    """compare one observed read_stack call with O1"""
    ref = clt.abd(o['stack'], o['plyts'], o['laminaprops'], o['offset'])
    for nm in 'ABDE':
        S = ref['S' + nm]
        err = np.abs(o[nm] - ref[nm])
        ratio = float((err / (S + 1e-300)).max())
        c.judge('%s%s equals integral' % (tag, nm), ratio, TOL,
                data={'entry_err': err.max(), 'which': nm})
    F = np.block([[o['A'], o['B']], [o['B'], o['D']]])
    c.expect(tag + 'ABD block structure', np.array_equal(o['ABD'], F))
    F8 = np.zeros((8, 8))
    F8[:6, :6] = F
    F8[6:, 6:] = o['E']
    c.expect(tag + 'ABDE block structure', np.array_equal(o['ABDE'], F8))
    c.judge(tag + 'thickness', abs(o['t'] - ref['t']), 1e-13 * ref['t'])
    return ref


def run_case(rng, tier, idx):
    from compmech.composite.laminate import read_stack
    lamd = gen.laminate(rng, nmax=24, offset_prob=0.6)
    c = Case({'lam': lamd})
    st = lamd['stack']
    monitors.drain('read_stack')
    lam = read_stack(**gen.read_stack_args(lamd))
    obs = monitors.drain('read_stack')
    c.hit('read_stack', len(obs))
    if len(obs) != 1:
        c.violate('monitor', 'expected one observed read_stack call, got %d' % len(obs))
        return c
    o = obs[0]
    ref = judge_obs(c, o)
    c.tag('plies:%d' % min(len(st), 25), 'form:%d' % len(lamd['laminaprops'][0]),
          'uniform' if lamd['uniform'] else 'perply', 'kind:' + lamd['kind'])
    ang_nontriv = any(abs((a / 90.) - round(a / 90.)) > 1e-6 for a in st)
    c.nontrivial = len(st) >= 2 and ang_nontriv and (np.abs(ref['B']).max() > 1e-9 * np.abs(ref['SB']).max() or lamd['offset'] != 0)

    ABD = o['ABD']
    S6 = np.block([[ref['SA'], ref['SB']], [ref['SB'], ref['SD']]])
    # symmetry (exact: the code mirrors by construction? it integrates a symmetric QL) and PD
    c.judge('ABD symmetric', (np.abs(ABD - ABD.T) / S6).max(), 1e-13)
    # positive definiteness judged scale-free: D^-1/2 ABD D^-1/2
    # (uses the offset-free reference because PD is invariant under the shift congruence)
    t = ref['t']
    sc = np.array([1, 1, 1, t, t, t]) * 1.0
    Fn = ABD / np.outer(sc, sc)
    ev = np.linalg.eigvalsh((Fn + Fn.T) / 2)
    c.expect('ABD positive definite', ev.min() > 0, 'min eig %.3e max %.3e' % (ev.min(), ev.max()))

    # the returned object evaluated again (what force_* helpers and user code do): same state -> same matrices; offset, a ply angle
    # or a ply thickness reassigned -> the matrices of the laminate as it is now
    if rng.random() < 0.5:
        c.tag('clause:reevaluated')
        lam.calc_constitutive_matrix()
        o2 = dict(o, A=np.array(lam.A), B=np.array(lam.B), D=np.array(lam.D), E=np.array(lam.E), ABD=np.array(lam.ABD), ABDE=np.array(lam.ABDE), t=lam.t)
        judge_obs(c, o2, tag='evaluated twice: ')
        what = str(rng.choice(['offset', 'angle', 'thickness']))
        st2 = list(o['stack']); ts2 = list(o['plyts']); off2 = o['offset']
        if what == 'offset':
            off2 = float(rng.uniform(-2, 2) * ref['t'])
            lam.offset = off2
        elif what == 'angle':
            j = int(rng.integers(0, len(st2)))
            st2[j] = float(rng.uniform(-90, 90))
            lam.plies[j].theta = st2[j]
            lam.rebuild()
        else:
            j = int(rng.integers(0, len(ts2)))
            ts2[j] = float(ts2[j] * rng.uniform(0.3, 3))
            lam.plies[j].t = ts2[j]
            lam.rebuild()
        lam.calc_constitutive_matrix()
        o3 = dict(o, stack=st2, plyts=ts2, offset=off2, A=np.array(lam.A), B=np.array(lam.B), D=np.array(lam.D), E=np.array(lam.E),
                  ABD=np.array(lam.ABD), ABDE=np.array(lam.ABDE), t=lam.t)
        c.desc['reevaluated_after'] = what
        judge_obs(c, o3, tag='re-evaluated after a new %s: ' % what)
    args = gen.read_stack_args(lamd)
    # offset shift rule with two more real executions
    d = float(rng.uniform(-2, 2) * t)
    a0 = dict(args); a0['offset'] = 0.0
    a1 = dict(args); a1['offset'] = d
    L0 = read_stack(**a0)
    L1 = read_stack(**a1)
    A0, B0, D0 = np.array(L0.A), np.array(L0.B), np.array(L0.D)
    SA = ref['SA']
    sB = SA * (t / 2 + abs(d)) * t
    c.judge('A independent of offset', (np.abs(np.array(L1.A) - A0) / SA).max(), 1e-12)
    refsh = clt.abd(o['stack'], o['plyts'], o['laminaprops'], d)
    c.judge('B(d)=B(0)+d*A', (np.abs(np.array(L1.B) - (B0 + d * A0)) / refsh['SB']).max(), 1e-10)
    c.judge('D(d)=D(0)+2d*B(0)+d^2*A', (np.abs(np.array(L1.D) - (D0 + 2 * d * B0 + d * d * A0)) / refsh['SD']).max(), 1e-10)

    # A independent of ply order (permute plies; thickness/material travel with the ply)
    if len(st) >= 2:
        perm = rng.permutation(len(st))
        ap = dict(stack=[o['stack'][i] for i in perm], plyts=[o['plyts'][i] for i in perm],
                  laminaprops=[o['laminaprops'][i] for i in perm], offset=o['offset'])
        Lp = read_stack(**ap)
        c.judge('A independent of ply order', (np.abs(np.array(Lp.A) - o['A']) / SA).max(), 1e-12)
        c.judge('E independent of ply order', (np.abs(np.array(Lp.E) - o['E']) / ref['SE']).max(), 1e-12)

    # mid-plane symmetric stack => B = 0 (build symmetric version of this stack, no offset)
    hs = dict(stack=o['stack'] + o['stack'][::-1], plyts=o['plyts'] + o['plyts'][::-1],
              laminaprops=o['laminaprops'] + o['laminaprops'][::-1], offset=0.0)
    Ls = read_stack(**hs)
    rs = clt.abd(hs['stack'], hs['plyts'], hs['laminaprops'], 0.0)
    c.judge('symmetric stack has B=0', (np.abs(np.array(Ls.B)) / rs['SB']).max(), 1e-12)

    # mirroring every angle flips sign of 16/26 entries only
    am = dict(stack=[-x for x in o['stack']], plyts=o['plyts'], laminaprops=o['laminaprops'], offset=o['offset'])
    Lm = read_stack(**am)
    sg = np.array([[1, 1, -1], [1, 1, -1], [-1, -1, 1]])
    sg6 = np.block([[sg, sg], [sg, sg]])
    c.judge('mirror angles flips 16/26', (np.abs(np.array(Lm.ABD) - sg6 * ABD) / S6).max(), 1e-12)
    c.judge('mirror angles flips 45', (np.abs(np.array(Lm.E) - np.array([[1, -1], [-1, 1]]) * o['E']) / ref['SE']).max(), 1e-12)

    # +90 rotation: 11<->22, 16<->26 with sign change, 44<->55 (45 changes sign)
    ar = dict(stack=[x + 90. for x in o['stack']], plyts=o['plyts'], laminaprops=o['laminaprops'], offset=o['offset'])
    Lr = read_stack(**ar)
    P = np.array([[0, 1, 0], [1, 0, 0], [0, 0, -1]])

    def rot(M):
        return P @ M @ P.T
    for nm, S in (('A', ref['SA']), ('B', ref['SB']), ('D', ref['SD'])):
        got = np.array(getattr(Lr, nm))
        exp = rot(o[nm])
        c.judge('rotate 90: ' + nm, (np.abs(got - exp) / (rot(S) * 0 + np.abs(P) @ S @ np.abs(P.T))).max(), 1e-8)
    Er = np.array(Lr.E)
    Pe = np.array([[0, 1], [-1, 0]])
    c.judge('rotate 90: E', (np.abs(Er - Pe @ o['E'] @ Pe.T) / (np.abs(Pe) @ ref['SE'] @ np.abs(Pe.T))).max(), 1e-8)

    # exact rational reference for 0/90 stacks
    if all(abs(a / 90. - round(a / 90.)) == 0 for a in st):
        Ae, Be, De = clt.abd_exact_crossply(o['stack'], o['plyts'], o['laminaprops'], o['offset'])
        for nm, X in (('A', Ae), ('B', Be), ('D', De)):
            c.judge('exact rational ' + nm, (np.abs(o[nm] - X) / ref['S' + nm]).max(), TOL)
        c.tag('exact_rational')
    # drain the extra observations and judge them too (they are real calls)
    for o2 in monitors.drain('read_stack'):
        c.hit('read_stack')
        judge_obs(c, o2, tag='(corollary call) ')
    return c
