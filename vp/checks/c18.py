"""C18 - shell loads, prescribed amplitudes and partitioning are mutually
consistent.

Monitors on the real ConeCyl: geometry identities after _rebuild; inverse
book-keeping of exclude_dofs_matrix / calc_full_c on random sparse matrices;
calc_fext judged by O6 (virtual work against ConeCyl.uvw, quadrature on the
recovered field); the linear static solution observed through the recorder on
sparse.solve."""
import numpy as np
import scipy.sparse as sp

from .. import gen, monitors
from ..core import Case

MODES = ['geometry', 'bookkeeping', 'fext', 'fext', 'static']


def plan(tier):
    n = 200 if tier == 'quick' else 4000
    return dict(n_cases=n, shards=16, min_nontrivial=n // 3,
                min_tags={'mode:geometry': n // 8, 'mode:bookkeeping': n // 8, 'mode:fext': n // 5, 'mode:static': n // 8,
                          'load:pressure': n // 20, 'load:spl': n // 60, 'load:axial': n // 20, 'load:torque': n // 70, 'load:point': n // 20, 'pd:C': n // 60},
                watchdog_s=1800 if tier == 'quick' else 10000,
                rule='CLPT and FSDT shell models; geometry from each admissible pair of (r1,r2,H,L) plus alpha; point forces anywhere (constant and '
                     'incremental), pressure P and P_inc, axial load Fc or prescribed shortening uTM (pdC), torque T/T_inc (pdT off) or prescribed twist '
                     'thetaTdeg (pdT on), load factors in [0,2]; every excluded-dof set the API admits; non-trivial = at least two load kinds or a cone; '
                     'distinct = hash of the description',
                assumptions=['torque work is judged for boundary-condition variants whose tangential displacement at the loaded edge is axisymmetric (bc1, bc2): '
                             'there the point-force form used by calc_fext and a uniform tangential line load coincide',
                             'pressure on FSDT models raises NotImplementedError (rejection)'])


def setup(tier):
    import compmech.sparse as S
    monitors.install_recorder(S, 'solve')


def run_case(rng, tier, idx):
    mode = MODES[idx % len(MODES)]
    c = Case({'mode': mode})
    c.tag('mode:' + mode)
    monitors.drain('solve')
    return globals()['case_' + mode](c, rng, tier)


def case_geometry(c, rng, tier):
    from compmech.conecyl import ConeCyl
    alpha = float(rng.uniform(0.5, 60)) if rng.random() < 0.8 else 0.0
    r2 = gen.logu(rng, 0.05, 2); L = r2 * gen.logu(rng, 0.3, 4)
    sa, ca = np.sin(np.deg2rad(alpha)), np.cos(np.deg2rad(alpha))
    r1 = r2 + L * sa; H = L * ca
    subsets = [('r2', 'L'), ('r1', 'L'), ('r2', 'H'), ('r1', 'H')]
    if alpha != 0:
        subsets.append(('r1', 'r2'))
    sub = subsets[int(rng.integers(0, len(subsets)))]
    vals = {'r1': r1, 'r2': r2, 'L': L, 'H': H}
    c.desc.update(alphadeg=alpha, given={k: vals[k] for k in sub})
    c.tag('given:' + '+'.join(sub))
    cc = ConeCyl()
    cc.model = 'clpt_donnell_bc1'
    cc.alphadeg = alpha
    for k in sub:
        setattr(cc, k, vals[k])
    cc.stack = [0.]; cc.plyt = 0.001 * r2; cc.laminaprop = (7e10, 7e10, 0.3)
    cc.m1 = cc.m2 = cc.n2 = 2
    try:
        cc._rebuild()
    except Exception as e:
        return c.reject('%s in _rebuild: %s' % (type(e).__name__, str(e)[:100]))
    c.hit('_rebuild')
    for nm in ('r1', 'r2', 'L', 'H'):
        got = getattr(cc, nm)
        c.expect('derived %s is defined' % nm, got is not None and np.isfinite(got))
        if got is not None:
            c.judge('derived geometry reproduces the intended shell: ' + nm, abs(got - vals[nm]), 1e-10 * abs(vals[nm]) + 1e-300)
    if None not in (cc.r1, cc.r2, cc.L, cc.H):
        c.judge('r1 - r2 = L sin(alpha)', abs((cc.r1 - cc.r2) - cc.L * cc.sina), 1e-12 * cc.r1)
        c.judge('H = L cos(alpha)', abs(cc.H - cc.L * cc.cosa), 1e-12 * cc.L)
    c.expect('is_cylinder flag follows the angle', cc.is_cylinder == (alpha == 0))
    c.nontrivial = alpha != 0
    return c


def case_bookkeeping(c, rng, tier):
    d = gen.shell_desc(rng, mmax=3, nmax=2, springs=False)
    pdC = bool(rng.random() < 0.5); pdT = bool(rng.random() < 0.5)
    d.update(pdC=pdC, pdT=pdT, uTM=float(rng.normal() * 1e-3), thetaTdeg=float(rng.normal()))
    c.desc['shell'] = d
    c.tag('excluded:%s' % ('C' if pdC else '') + ('T' if pdT else '') + 'LA')
    cc = gen.build_shell(d)
    cc._rebuild()
    size = cc.get_size()
    ex = list(cc.excluded_dofs)
    dens = float(rng.uniform(0.05, 0.6))
    A = sp.random(size, size, density=dens, random_state=int(rng.integers(0, 2 ** 31)), format='coo')
    A = A + sp.diags(rng.normal(size=size))
    Ad = A.toarray()
    out = cc.exclude_dofs_matrix(sp.coo_matrix(A), return_kkk=True, return_kku=True, return_kuk=True)
    c.hit('exclude_dofs_matrix')
    free = np.setdiff1d(np.arange(size), ex)
    c.expect('kuu is the matrix without the prescribed rows and columns', np.array_equal(out['kuu'].toarray(), Ad[np.ix_(free, free)]))
    c.expect('kuk holds the first three columns on the free rows', np.array_equal(np.asarray(out['kuk']), Ad[np.ix_(free, [0, 1, 2])]))
    c.expect('kku holds the first three rows on the free columns', np.array_equal(np.asarray(out['kku']), Ad[np.ix_([0, 1, 2], free)]))
    free3 = [k for k in range(3) if k not in ex]
    c.expect('kkk holds the leading block on the free part of the first three', np.array_equal(np.asarray(out['kkk']), Ad[np.ix_(free3, free3)]))
    c.expect('input matrix not modified', np.array_equal(sp.coo_matrix(A).toarray(), Ad))
    # reassembly: kuu, kuk and the prescribed columns rebuild the original product K c on the free rows
    inc = float(rng.uniform(0, 2))
    cu = rng.normal(size=size - len(ex))
    cfull = cc.calc_full_c(cu.copy(), inc=inc)
    c.hit('calc_full_c')
    c.expect('calc_full_c keeps the free amplitudes', np.array_equal(np.delete(cfull, ex), cu))
    for dof, ck in zip(cc.excluded_dofs, cc.excluded_dofs_ck):
        c.judge('calc_full_c inserts inc times the prescribed value', abs(cfull[dof] - inc * ck), 1e-15 * abs(inc * ck) + 1e-300)
    c.expect('removing and re-inserting are inverse operations', np.array_equal(cc.calc_full_c(np.delete(cfull, ex), inc=inc), cfull))
    lhs = (Ad @ cfull)[free]
    rhs = out['kuu'] @ cu + np.asarray(out['kuk'])[:, ex] @ cfull[ex]
    sc = np.abs(Ad)[free] @ np.abs(cfull) + 1e-300
    c.judge('blocks reassemble to the original matrix action', float((np.abs(lhs - rhs) / sc).max()), 1e-13)
    cb = cu.copy()
    cc.calc_full_c(cu, inc=inc)
    c.expect('calc_full_c does not modify its argument', np.array_equal(cb, cu))
    c.nontrivial = True
    return c


def shell_loads(rng, d, allow_pressure=True):
    loads = {}
    kinds = []
    if rng.random() < 0.6:
        n = int(rng.integers(1, 4))
        loads['forces'] = [[float(rng.uniform(0, d['L'])), float(rng.uniform(0, 360))] + [float(v) for v in rng.normal(size=3) * 10 ** rng.uniform(0, 3)] for _ in range(n)]
        loads['forces_inc'] = [[float(rng.uniform(0, d['L'])), float(rng.uniform(0, 360))] + [float(v) for v in rng.normal(size=3) * 10 ** rng.uniform(0, 3)] for _ in range(int(rng.integers(0, 3)))]
        kinds.append('point')
    if rng.random() < 0.3:
        # single perturbation loads through the dedicated helper: a radial force -PL at x = pt*L, theta = thetadeg
        loads['spls'] = [[float(rng.normal() * 10 ** rng.uniform(0, 3)), float(rng.uniform(0.05, 0.95)), float(rng.uniform(-180, 360)), bool(rng.random() < 0.4)]
                         for _ in range(int(rng.integers(1, 3)))]
        kinds.append('spl')
    if allow_pressure and rng.random() < 0.5:
        loads['P'] = float(rng.normal() * 1e4); loads['P_inc'] = float(rng.normal() * 1e4) if rng.random() < 0.5 else 0.0
        kinds.append('pressure')
    if rng.random() < 0.5:
        loads['Fc'] = float(rng.normal() * 1e4)
        kinds.append('axial')
        # load asymmetry: a bending moment carried by the axial line load (given directly, or as an eccentricity of the force)
        k = rng.random()
        if k < 0.25:
            loads['MLA'] = float(rng.normal() * 1e3); kinds.append('asymmetry')
        elif k < 0.5:
            loads['xiLA'] = float(rng.uniform(-1, 1) * d['r2']); kinds.append('asymmetry')
    return loads, kinds


def build_loaded(d, loads):
    cc = gen.build_shell(d)
    # distributed loads first: add_SPL evaluates the geometry and the axial line load of the object as it is at that moment
    for k in ('P', 'P_inc', 'Fc', 'T', 'T_inc', 'MLA', 'xiLA'):
        if k in loads:
            setattr(cc, k, loads[k])
    for f in loads.get('forces', []):
        cc.add_force(*f, increment=False)
    for f in loads.get('forces_inc', []):
        cc.add_force(*f, increment=True)
    for PL, pt, th, incr in loads.get('spls', []):
        cc.add_SPL(PL, pt=pt, thetadeg=th, increment=incr)
    return cc


def virtual_work(cc, d, loads, cfull, inc):
    """work of the loads on the field ConeCyl.uvw reports for the full amplitude vector"""
    W = 0.0; S = 0.0
    spl_c = [[pt * d['L'], th, 0.0, 0.0, -PL] for PL, pt, th, incr in loads.get('spls', []) if not incr]
    spl_i = [[pt * d['L'], th, 0.0, 0.0, -PL] for PL, pt, th, incr in loads.get('spls', []) if incr]
    for lst, fac in ((loads.get('forces', []) + spl_c, 1.0), (loads.get('forces_inc', []) + spl_i, inc)):
        for x, thdeg, fx, ft, fz in lst:
            u, v, w = [float(np.asarray(o).ravel()[0]) for o in cc.uvw(cfull.copy(), xs=np.array([x]), ts=np.array([np.deg2rad(thdeg)]))[:3]]
            W += fac * (fx * u + ft * v + fz * w)
            S += abs(fac) * (abs(fx * u) + abs(ft * v) + abs(fz * w))
    nth = 2 * cc.n2 + 5
    th = np.arange(nth) * 2 * np.pi / nth
    if 'Fc' in loads:
        Nxx0 = inc * loads['Fc'] / (2 * np.pi * cc.r2 * cc.cosa)
        # statics of the ring: a line load N0 + N1 cos(theta) has the axial resultant 2 pi r2 cos(alpha) N0 and the moment
        # pi r2^2 cos(alpha) N1 about the diameter theta = +-90 deg
        M = loads.get('MLA', loads.get('xiLA', 0.0) * loads['Fc'] if 'xiLA' in loads else 0.0)
        Nxx1 = inc * M / (np.pi * cc.r2 ** 2 * cc.cosa)
        line = Nxx0 + Nxx1 * np.cos(th)
        u = np.asarray(cc.uvw(cfull.copy(), xs=np.zeros(nth), ts=th)[0]).ravel()
        W += cc.r2 * float((line * u).sum()) * 2 * np.pi / nth
        S += cc.r2 * float((np.abs(line) * np.abs(u)).sum()) * 2 * np.pi / nth
    P = loads.get('P', 0.0) + inc * loads.get('P_inc', 0.0)
    if P != 0:
        ng = 6 * max(cc.m1, cc.m2) + 16
        g, wg = np.polynomial.legendre.leggauss(ng)
        xs = (g + 1) * cc.L / 2.
        X, T = np.meshgrid(xs, th, indexing='ij')
        w = np.asarray(cc.uvw(cfull.copy(), xs=X.ravel().copy(), ts=T.ravel().copy())[2]).ravel()
        r = cc.r2 + X.ravel() * cc.sina
        wt = np.outer(wg * cc.L / 2., np.full(nth, 2 * np.pi / nth)).ravel()
        W += P * float((w * r * wt).sum())
        S += abs(P) * float((np.abs(w) * r * wt).sum())
    Tq = loads.get('T', 0.0) + inc * loads.get('T_inc', 0.0)
    if Tq != 0:
        v = np.asarray(cc.uvw(cfull.copy(), xs=np.zeros(nth), ts=th)[1]).ravel()
        W += Tq / (2 * np.pi * cc.r2) * v.sum() * 2 * np.pi / nth
        S += abs(Tq) / (2 * np.pi * cc.r2) * np.abs(v).sum() * 2 * np.pi / nth
    return W, S


def case_fext(c, rng, tier):
    d = gen.shell_desc(rng, mmax=3, nmax=3, springs=bool(rng.random() < 0.5))
    fsdt = 'fsdt' in d['model']
    loads, kinds = shell_loads(rng, d, allow_pressure=not fsdt)
    bc = d['model'].split('_')[-1]
    pdT = True
    if bc in ('bc1', 'bc2') and rng.random() < 0.4:
        pdT = False
        loads['T'] = float(rng.normal() * 1e3); loads['T_inc'] = float(rng.normal() * 1e3) if rng.random() < 0.5 else 0.0
        kinds.append('torque')
    pdC = bool(rng.random() < 0.3)
    d.update(pdT=pdT, pdC=pdC)
    if pdC:
        d['uTM'] = float(rng.normal() * 1e-4)
        loads.pop('Fc', None)
        if 'axial' in kinds:
            kinds.remove('axial')
        c.tag('pd:C')
    if pdT:
        d['thetaTdeg'] = float(rng.normal() * 0.1) if rng.random() < 0.5 else 0.0
    if rng.random() < 0.4:
        d['tLAdeg'] = float(rng.uniform(-180, 360))      # reference meridian of the load asymmetry (enters the base functions)
        c.tag('tLA:nonzero')
    inc = float(rng.uniform(0, 2))
    c.desc.update(shell=d, loads=loads, inc=inc)
    for k in kinds:
        c.tag('load:' + k)
    c.tag('model:' + d['model'], 'cone' if d['alphadeg'] else 'cylinder')
    c.nontrivial = len(kinds) >= 2 or d['alphadeg'] != 0
    if not kinds and not pdC:
        loads['Fc'] = 1234.5; kinds.append('axial'); c.tag('load:axial')
    cc = build_loaded(d, loads)
    try:
        fext = np.asarray(cc.calc_fext(inc=inc, silent=True), dtype=float)
    except NotImplementedError as e:
        return c.reject('NotImplementedError in calc_fext: %s' % str(e)[:80])
    c.hit('calc_fext')
    size = cc.get_size()
    ex = list(cc.excluded_dofs)
    free = np.setdiff1d(np.arange(size), ex)
    c.expect('fext lives on the free amplitudes', fext.shape == (size - len(ex),))
    # f_u = f_u(loads) - K_uk c_k : judge the load part through virtual work with the prescribed amplitudes held at zero,
    # the prescribed-displacement part through the partition of the real k0
    k0 = cc.k0.toarray()
    ck = np.zeros(size)
    for dof, val in zip(cc.excluded_dofs, cc.excluded_dofs_ck):
        ck[dof] = inc * val
    pres = -(k0[np.ix_(free, ex)] @ ck[ex]) if ex else 0.0
    # load asymmetry amplitude (dof 2) is prescribed but carries no reaction term in calc_fext; its value is LA = r2*tan(beta) = 0 here
    f_loads = fext - pres
    for trial in range(5):
        cu = rng.normal(size=free.size)
        cfull = np.zeros(size); cfull[free] = cu
        W, S = virtual_work(cc, d, loads, cfull, inc)
        got = float(f_loads @ cu)
        sc = S + float(np.abs(f_loads) @ np.abs(cu)) + float(np.abs(pres) @ np.abs(cu)) * 1e-6 if ex else S + float(np.abs(f_loads) @ np.abs(cu))
        c.judge('fext.c_u equals the virtual work of point forces, axial load, pressure and torque on the reported field', abs(got - W), 3e-9 * sc + 1e-300,
                data={'got': got, 'work': W, 'kinds': kinds})
    # incremental parts scale with the load factor: fext is affine in inc
    f0 = np.asarray(build_loaded(d, loads).calc_fext(inc=0., silent=True))
    f1 = np.asarray(build_loaded(d, loads).calc_fext(inc=1., silent=True))
    sc = np.abs(f0) + np.abs(f1) + np.abs(fext); sc = sc + 1e-9 * sc.max() + 1e-300
    c.judge('fext(inc) = fext(0) + inc*(fext(1) - fext(0))', float((np.abs(fext - (f0 + inc * (f1 - f0))) / sc).max()), 1e-12)
    # fext(0) carries only the constant parts: constant point forces and constant pressure
    const = {k: v for k, v in loads.items() if k in ('forces', 'P', 'T')}
    if 'spls' in loads:
        const['spls'] = [sp for sp in loads['spls'] if not sp[3]]
    dz = dict(d); dz['uTM'] = 0.0; dz['thetaTdeg'] = 0.0
    fc = np.asarray(build_loaded(dz, const).calc_fext(inc=1., silent=True))
    c.judge('fext(0) equals the vector of the constant loads alone', float((np.abs(f0 - fc) / (np.abs(f0) + np.abs(fc) + 1e-9 * (np.abs(fc).max() + 1e-300) + 1e-300)).max()), 1e-12)
    # the point forces of the already evaluated object are redefined (same number of forces at other places / with other
    # components, or one force edited in place - the pattern of a perturbation-load study): the vector asked for now is the one of
    # the forces as they are now
    if 'spls' not in loads and (loads.get('forces') or loads.get('forces_inc')) and rng.random() < 0.7:
        c.tag('clause:forces_redefined')
        loads2 = dict(loads)
        how = str(rng.choice(['replaced_same_count', 'edited_in_place']))
        for key, attr, incr in (('forces', 'forces', False), ('forces_inc', 'forces_inc', True)):
            old_ = loads.get(key) or []
            if not old_:
                continue
            if how == 'replaced_same_count':
                new_ = [[float(rng.uniform(0, d['L'])), float(rng.uniform(0, 360))] + [float(v) for v in rng.normal(size=3) * 10 ** rng.uniform(0, 3)] for _ in old_]
                setattr(cc, attr, [])
                for f in new_:
                    cc.add_force(*f, increment=incr)
            else:
                new_ = [list(f) for f in old_]
                j = int(rng.integers(0, len(new_)))
                new_[j] = [float(rng.uniform(0, d['L'])), float(rng.uniform(0, 360))] + [float(v) for v in rng.normal(size=3) * 10 ** rng.uniform(0, 3)]
                lst = getattr(cc, attr)
                for k_ in range(5):
                    lst[j][k_] = new_[j][k_] if k_ != 1 else float(np.deg2rad(new_[j][1]))     # the object stores the angle in radians
            loads2[key] = new_
        c.desc['forces_redefined'] = {'how': how, 'forces': loads2.get('forces'), 'forces_inc': loads2.get('forces_inc')}
        fext2 = np.asarray(cc.calc_fext(inc=inc, silent=True), dtype=float)
        f_loads2 = fext2 - pres
        for trial in range(3):
            cu = rng.normal(size=free.size)
            cfull = np.zeros(size); cfull[free] = cu
            W, S = virtual_work(cc, d, loads2, cfull, inc)
            got = float(f_loads2 @ cu)
            sc = S + float(np.abs(f_loads2) @ np.abs(cu)) + (float(np.abs(pres) @ np.abs(cu)) * 1e-6 if ex else 0.0)
            c.judge('fext after the point forces were redefined equals the virtual work of the forces as they are now', abs(got - W), 3e-9 * sc + 1e-300,
                    data={'how': how})
    return c


def case_static(c, rng, tier):
    from ..oracles import eig
    d = gen.shell_desc(rng, models=gen.CLPT_MODELS + ['fsdt_donnell_bc1', 'fsdt_donnell_bc2'], mmax=3, nmax=2, springs=False)
    fsdt = 'fsdt' in d['model']
    loads, kinds = shell_loads(rng, d, allow_pressure=not fsdt)
    if not kinds:
        loads['Fc'] = 1000.0; kinds = ['axial']
    if rng.random() < 0.5:
        d['thetaTdeg'] = float(rng.normal() * 0.1)
    c.desc.update(shell=d, loads=loads)
    c.tag('model:' + d['model'], 'cone' if d['alphadeg'] else 'cylinder')
    for k in kinds:
        c.tag('load:' + k)
    cc = build_loaded(d, loads)
    try:
        cs = cc.static(silent=True)
    except NotImplementedError as e:
        return c.reject('NotImplementedError in static: %s' % str(e)[:80])
    c.hit('static')
    ev = monitors.drain('solve')
    c.expect('the linear static analysis solves one system', len(ev) == 1, '%d solve calls' % len(ev))
    if not ev:
        return c
    a, b = ev[0]['args'][0], ev[0]['args'][1]
    x = np.asarray(ev[0]['result'], dtype=float)
    A = eig.dense(a)
    kuu = cc.k0uu.toarray()
    c.expect('the system matrix is k0 on the free amplitudes', np.array_equal(A, kuu))
    fu = np.asarray(cc.calc_fext(inc=1., silent=True))
    c.expect('the right-hand side is calc_fext at full load (prescribed-displacement terms included)', np.array_equal(np.asarray(b, dtype=float), fu))
    act = np.where(np.abs(A).sum(axis=0) > 0)[0]
    cond = np.linalg.cond(A[np.ix_(act, act)]) if act.size else np.inf
    if not np.isfinite(cond) or cond > 1e13:
        return c.reject('outside the domain: singular reduced stiffness (cond %.1e) for %s%s' % (cond, d['model'], ' cone' if d['alphadeg'] else ''))
    r = A[np.ix_(act, act)] @ x[act] - fu[act]
    be = np.linalg.norm(r) / (np.abs(A).sum(axis=1).max() * np.linalg.norm(x[act]) + np.linalg.norm(fu[act]) + 1e-300)
    c.judge('K_uu c_u = f_u', be, 1e-10)
    c.expect('returned solution is the solved vector', np.array_equal(np.asarray(cs[0]), x))
    c.hit('solve')
    c.nontrivial = True
    return c
