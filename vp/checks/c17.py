"""C17 - cone/cylinder non-linear tangent is the Jacobian of the internal force.

Monitor: the real ConeCyl.calc_fint / calc_kT observed at generated states with
identical integration settings; oracle O4 (polynomial-exact 5-point stencil of
the internal force).  Thread-count invariance and both integration rules are
separate real executions."""
import numpy as np

from .. import gen
from ..core import Case


def plan(tier):
    n = 96 if tier == 'quick' else 2400
    return dict(sanitize={'extensions': ['compmech.integrate.integratev', 'compmech.conecyl.clpt.clpt_commons_bc1', 'compmech.conecyl.clpt.clpt_donnell_bc1_nonlinear', 'compmech.conecyl.fsdt.fsdt_commons_bcn', 'compmech.conecyl.fsdt.fsdt_donnell_bcn_nonlinear'], 'n_cases': 48}, n_cases=n, shards=16, min_nontrivial=n // 3,
                min_tags={'geom:cone': n // 8, 'geom:cylinder': n // 8, 'rule:simps2d': n // 8, 'rule:trapz2d': n // 8, 'clause:threads': n // 4,
                          'state:zero': n // 12, 'imperfection:yes': n // 8, 'prescribed:none': n // 5, 'prescribed:shortening': n // 24, 'prescribed:twist': n // 24},
                watchdog_s=2400 if tier == 'quick' else 14000,
                rule='the 12 non-linear-capable shell models, cylinders and cones up to 45 deg, states with out-of-plane amplitudes 0.05..3 wall thicknesses, '
                     'B-coupled laminates, orders m1<=%d, m2,n2<=%d, grids with nx,nt >= 4x the highest wave number, trapezoid and Simpson rules, 1..8 '
                     'integration threads; load factor 0.2..1.3 with prescribed shortening and/or twist (40%%), initial imperfection coefficients with the three imperfection '
                     'function families (30%%), the zero free state (20%%); 4 random directions per state plus a full Jacobian for the known-finding classifier; non-trivial = state with '
                     'non-zero harmonic amplitudes; distinct = hash of the description' % ((3, 2) if tier == 'quick' else (6, 4)),
                assumptions=['fint is a polynomial of degree <= 4 of the amplitudes (5-point stencils at h and h/2 must agree)',
                             'identical nx, nt, ni_method for calc_kT and calc_fint: the discretised pair must be consistent exactly'])


def stencil(f, c, dc, h=1.0):
    p = [np.asarray(f(c + t * h * dc), dtype=float) for t in (-2, -1, 1, 2)]
    D = (p[0] - 8 * p[1] + 8 * p[2] - p[3]) / (12 * h)
    S = (np.abs(p[0]) + 8 * np.abs(p[1]) + 8 * np.abs(p[2]) + np.abs(p[3])) / (12 * h)
    return D, S


def run_case(rng, tier, idx):
    mm, nn = (3, 2) if tier == 'quick' else (6, 4)
    model = gen.NL_MODELS[idx % len(gen.NL_MODELS)]
    cone = bool(rng.random() < 0.5)
    d = gen.shell_desc(rng, models=[model], cone=cone, mmax=mm, nmax=nn, springs=False)
    if cone:
        d['alphadeg'] = min(d['alphadeg'], 45.0)
    rule = str(rng.choice(['trapz2d', 'simps2d']))
    threads = int(rng.integers(1, 9))
    d['ni_method'] = rule; d['ni_num_cores'] = threads
    h = d.get('h') or d['plyt'] * len(d['stack'])
    # load level and prescribed amplitudes (shortening / twist), initial imperfection, state kind
    inc = 1.0
    prescribed = bool(rng.random() < 0.4)
    if prescribed:
        inc = float(rng.uniform(0.2, 1.3))
        which = str(rng.choice(['shortening', 'twist', 'both']))
        if which in ('shortening', 'both'):
            d['pdC'] = True; d['uTM'] = float(rng.choice([-1, 1]) * 10 ** rng.uniform(-2, 0) * h)
        if which in ('twist', 'both'):
            d['thetaTdeg'] = float(rng.choice([-1, 1]) * 10 ** rng.uniform(-2, 0) * np.degrees(h / d['r2']))
    # load asymmetry: the loaded ring tilted by beta about the meridian at tLA (prescribed third amplitude LA = r2*tan(beta))
    asym = bool(rng.random() < 0.25)
    if asym:
        d['betadeg'] = float(rng.choice([-1, 1]) * np.degrees(np.arctan(10 ** rng.uniform(-2, 0) * h / d['r2'])))
        d['tLAdeg'] = float(rng.uniform(-180, 360)) if rng.random() < 0.8 else 0.0
        if not prescribed:
            inc = float(rng.uniform(0.2, 1.3))
    imperfect = bool(rng.random() < 0.3)
    m0 = n0 = 0
    if imperfect:
        m0 = int(rng.integers(1, 4)); n0 = int(rng.integers(1, 4))
        fn = int(rng.choice([1, 2, 3]))
        # coefficient layout of compmech/conecyl/imperfections/mgi.pyx: 2 per (i, j) term for the sine / cosine families, 4 for the
        # combined family (a shorter vector is read past its end by the kernels - an invalid input, not a result)
        d['imp'] = {'m0': m0, 'n0': n0, 'funcnum': fn,
                    'c0': [float(x) for x in rng.normal(size=(4 if fn == 3 else 2) * m0 * n0) * h * 10 ** rng.uniform(-1, 0)]}
    zero_state = bool(rng.random() < 0.2)
    d['inc'] = inc
    d['nx'] = int(4 * max(d['m1'], d['m2'], m0) + 2 * rng.integers(1, 6))
    d['nt'] = int(4 * max(d['n2'], n0) + 2 * rng.integers(2, 8))
    c = Case({'shell': d, 'zero_state': zero_state})
    c.tag('model:' + model, 'geom:cone' if cone else 'geom:cylinder', 'rule:' + rule, 'threads:%d' % threads,
          'prescribed:' + (which if prescribed else 'none'), 'imperfection:' + ('yes' if imperfect else 'no'),
          'state:' + ('zero' if zero_state else 'deformed'), 'asymmetry:' + ('yes' if asym else 'no'))
    cc = gen.build_shell(d)
    if imperfect:
        cc.c0 = np.array(d['imp']['c0']); cc.m0 = m0; cc.n0 = n0; cc.funcnum = d['imp']['funcnum']
    for k_ in gen.shell_leftovers(rng, cc, d, prob=0.4):
        c.tag('left:' + k_)
    # 35%: the linear stiffness comes from a twin object and the object under test is fresh when its internal force is first asked
    fresh = bool(rng.random() < 0.35)
    c.tag('order:fresh' if fresh else 'order:k0_first')
    ck = cc
    if fresh:
        ck = gen.build_shell(d)
        if imperfect:
            ck.c0 = np.array(d['imp']['c0']); ck.m0 = m0; ck.n0 = n0; ck.funcnum = d['imp']['funcnum']
    try:
        k0uu = ck.calc_k0(silent=True).toarray()
    except Exception as e:
        return c.reject('%s in calc_k0: %s' % (type(e).__name__, str(e)[:100]))
    n = k0uu.shape[0]
    size = ck.get_size()
    free = np.setdiff1d(np.arange(size), ck.excluded_dofs)
    h = d.get('h') or d['plyt'] * len(d['stack'])
    md = __import__('compmech.conecyl.modelDB', fromlist=['db']).db[model]
    num0, num1, num2 = md['num0'], md['num1'], md['num2']
    dofs = md['dofs']
    # amplitude scaling: w-type amplitudes a fraction of the thickness, in-plane much smaller, rotations (fsdt) ~ w/L
    scale = np.full(size, 0.02 * h)
    wslots1 = 2 if dofs == 3 else 2
    for t in range(d['m1']):
        scale[num0 + t * num1 + 2] = h
        if dofs == 5:
            scale[num0 + t * num1 + 3] = h / d['L']; scale[num0 + t * num1 + 4] = h / d['L']
    nax = num0 + num1 * d['m1']
    per = num2 // dofs
    for t in range(d['m2'] * d['n2']):
        base = nax + t * num2
        for k in range(per):
            scale[base + 2 * per + k] = h
            if dofs == 5:
                scale[base + 3 * per + k] = h / d['L']; scale[base + 4 * per + k] = h / d['L']
    scale[0] = 0.02 * h
    amp = float(10 ** rng.uniform(np.log10(0.05), np.log10(3.0)))
    c.desc['amp_in_thicknesses'] = amp
    sc_free = scale[free] * amp

    def fint(cu):
        c.hit('calc_fint')
        return np.asarray(cc.calc_fint(np.ascontiguousarray(cu), inc=inc, return_u=True, silent=True), dtype=float)

    def kT(cu):
        c.hit('calc_kT')
        return cc.calc_kT(np.ascontiguousarray(cu), inc=inc, silent=True).toarray()
    try:
        if fresh:
            cprobe = rng.normal(size=n) * sc_free
            f_first = fint(cprobe)
            k_first = kT(cprobe) if rng.random() < 0.5 else None
        f0 = fint(np.zeros(n))
        if fresh:
            f_again = fint(cprobe)
            c.expect('fint asked first on a fresh shell equals fint of the same state asked again', np.array_equal(f_first, f_again),
                     'max diff %r' % float(np.abs(f_first - f_again).max()))
    except Exception as e:
        return c.reject('%s in calc_fint: %s' % (type(e).__name__, str(e)[:100]))
    if not prescribed and not imperfect and not asym:
        c.expect('internal force of the undeformed perfect shell is zero', not f0.any(), 'max %r' % float(np.abs(f0).max()))
    cu = rng.normal(size=n) * sc_free
    # states with exactly quiet parts (what path-following really visits: axisymmetric pre-buckling states, membrane states)
    pattern = str(rng.choice(['dense'] * 6 + ['axisymmetric', 'harmonic', 'w_only', 'inplane_only']))
    is_w = (scale[free] == h)
    is_ax = free < nax
    if pattern == 'axisymmetric':
        cu[~is_ax] = 0.0
    elif pattern == 'harmonic':
        cu[is_ax] = 0.0
    elif pattern == 'w_only':
        cu[~is_w] = 0.0
    elif pattern == 'inplane_only':
        cu[is_w] = 0.0
    c.tag('pattern:' + pattern)
    c.desc['state_pattern'] = pattern
    if zero_state:
        cu = np.zeros(n)
    cb = cu.copy()
    KT = kT(cu)
    c.expect('state vector not modified', np.array_equal(cb, cu))
    crep, rk = gen.vec_repr(rng, cu, lists=False)
    c.tag('repr:' + rk)
    c.expect('fint independent of the memory layout of the state vector',
             np.array_equal(np.asarray(cc.calc_fint(crep, inc=inc, return_u=True, silent=True), dtype=float), fint(cu)), rk)
    c.expect('kT independent of the memory layout of the state vector', np.array_equal(cc.calc_kT(crep, inc=inc, silent=True).toarray(), KT), rk)
    # entry-wise scale: the tangent is the sum k0 + state-dependent parts, an entry where they nearly cancel carries the round-off of
    # the summands (thorough-tier calibration: 5.9e-12 of |kT_ij| alone on a plain cylinder, 34 x 24 Simpson grid)
    scK = np.abs(KT) + np.abs(k0uu) + 1e-9 * np.abs(KT).max() + 1e-300
    c.judge('kT symmetric', float((np.abs(KT - KT.T) / scK).max()), 1e-11)
    # linear coefficient at the undeformed state
    if not prescribed and not imperfect and not asym and not zero_state:
        D0, S0 = stencil(fint, np.zeros(n), cu)
        ref = k0uu @ cu
        den = S0 + np.abs(k0uu) @ np.abs(cu); den = den + 1e-5 * den.max() + 1e-300
        c.judge('fint reduces to k0*c for vanishing amplitudes', float((np.abs(D0 - ref) / den).max()), 1e-9)
    # directional derivatives.  fint = k0*c + non-linear integrals: a row of fint can be orders of magnitude smaller than the
    # products |k0_ij c_j| it is summed from, and the stencil inherits that cancellation: 1e-6 of sum_j |k0_ij|(|c_j| + 2|dc_j|)
    # enters the scale, i.e. an absolute allowance of ~5 eps of those products at the 1e-9 tolerance
    # (the quadrature sums of the harmonic rows cancel likewise: rows below 1e-6 of the largest row scale are judged against that floor)
    def lin_noise(dc):
        return 1e-6 * (np.abs(k0uu) @ (np.abs(cu) + 2 * np.abs(dc)))
    worst = 0.0
    dirs = []
    dirs_S = []
    for k in range(4):
        dc = rng.normal(size=n) * sc_free
        D, S = stencil(fint, cu, dc)
        if k == 0:
            D2, _ = stencil(fint, cu, dc, h=0.5)
            den = S + np.abs(KT) @ np.abs(dc) + lin_noise(dc); den = den + 1e-5 * den.max() + 1e-300
            c.judge('fint is a polynomial of degree <= 4 along the direction (stencils at h and h/2 agree)', float((np.abs(D - D2) / den).max()), 1e-9)
        got = KT @ dc
        den = S + np.abs(KT) @ np.abs(dc) + lin_noise(dc); den = den + 1e-5 * den.max() + 1e-300
        e = float((np.abs(got - D) / den).max())
        worst = max(worst, e)
        dirs.append((dc, D, den))
        dirs_S.append((dc, D, S))
    mech = None
    if worst > 1e-9:
        mech = classify(c, cc, model, fint, kT, cu, KT, k0uu, sc_free, n, plain=not prescribed and not imperfect and not asym)
    for dc, D, den in dirs:
        c.judge('kT(c)*dc equals the derivative of fint along dc', float((np.abs(KT @ dc - D) / den).max()), 1e-9, mechanism=mech)
    # thread-count invariance (reassociation only) with another thread count
    c.tag('clause:threads')
    other = int(rng.integers(1, 9))
    cc.ni_num_cores = other
    f_a = fint(cu)
    KT_b = kT(cu)
    cc.ni_num_cores = threads
    f_b = fint(cu)
    # floor: the internal force of neighbouring states (a state whose force vanishes by symmetry returns quadrature round-off,
    # which differs from one chunking of the grid to another at the 1e-16 level of the integrand)
    near = max(float(S_.max()) for _, _, S_ in dirs_S) if dirs_S else 0.0
    scf = np.abs(f_a) + np.abs(f_b); scf = scf + 1e-6 * max(scf.max(), near) + 1e-300
    c.judge('fint independent of the number of integration threads', float((np.abs(f_a - f_b) / scf).max()), 1e-9, data={'threads': [threads, other]})
    c.judge('kT independent of the number of integration threads', float((np.abs(KT_b - KT) / (scK + 1e-6 * np.abs(KT).max())).max()), 1e-9)
    # repeatability at fixed configuration (a data race shows up as run-to-run differences)
    f_c = fint(cu)
    c.expect('fint repeatable at a fixed thread count', np.array_equal(f_b, f_c))
    c.nontrivial = True
    return c


def classify_directional(c, model, fint, kT, cu, KT, k0uu, sc_free, n, plain):
    """the same defect model for large systems, on three fixed directions instead of full Jacobians:
    delta(t) = (kT(t v) - J(t v)) dc is fitted as d0 + t d1 + t^2 d2 at t = 0, 1, 2 and verified at t = 3; the Sanders findings
    additionally need a vanishing second-order part and a symmetric fint Jacobian (dc_a . J dc_b = dc_b . J dc_a)"""
    v = cu if np.any(cu) else sc_free * np.cos(1.0 + np.arange(n))
    dcs = [sc_free * np.cos(0.7 * (k + 1) * (1.0 + np.arange(n))) for k in range(3)]
    KTs = [kT(t * v) for t in range(4)]
    nK = float(np.linalg.norm(KTs[1]))
    ok_all = True
    d2_small = True
    Jd = []
    for dc in dcs:
        dl = []
        for t in range(4):
            D, _ = stencil(fint, t * v, dc)
            dl.append(KTs[t] @ dc - D)
            if t == 1:
                Jd.append(D)
        d2 = (dl[2] - 2 * dl[1] + dl[0]) / 2.
        d1 = dl[1] - dl[0] - d2
        pred3 = dl[0] + 3 * d1 + 9 * d2
        noise = 1e-11 * nK * float(np.linalg.norm(dc))
        if np.linalg.norm(dl[3] - pred3) > 1e-6 * (np.linalg.norm(dl[3]) + np.linalg.norm(dl[1])) + 20 * noise:
            ok_all = False
        if plain and np.linalg.norm(dl[0]) > 20 * noise:
            ok_all = False
        ref = np.linalg.norm((KTs[1] - k0uu) @ dc) + 1e-300
        if np.linalg.norm(d2) > 1e-8 * ref + 20 * noise:
            d2_small = False
    asym = max(abs(float(dcs[a] @ Jd[b] - dcs[b] @ Jd[a])) / (abs(float(dcs[a] @ Jd[b])) + abs(float(dcs[b] @ Jd[a])) + 1e-300)
               for a in range(3) for b in range(a + 1, 3))
    c.info['tangent_discrepancy'] = {'mode': 'directional', 'polynomial_degree_le_2_confirmed_at_t3': bool(ok_all),
                                     'second_order_part_negligible': bool(d2_small), 'fint_jacobian_asymmetry_on_direction_pairs': float(asym)}
    if ok_all and model.startswith('clpt_sanders') and not (d2_small and asym <= 1e-9):
        return None
    return 'shell-tangent-inconsistent-with-fint-' + model if ok_all else None


# models for which a tangent inconsistency was found on the pinned tree (known_findings.json)
SUSPECT_MODELS = ('clpt_sanders_bc2', 'clpt_sanders_bc3', 'fsdt_donnell_bcn', 'fsdt_donnell_bc1')


def classify(c, cc, model, fint, kT, cu, KT, k0uu, sc_free, n, plain=True):
    """defect model of the recorded C17 findings (COARSE, model level): Delta(t) = kT(t c) - J(t c) vanishes at the
    undeformed state and is a polynomial of degree <= 2 in the scale t of the state, i.e. a first/second order term
    of the assembled tangent disagrees with the corresponding term of fint.  With prescribed amplitudes or an
    imperfection (which do not scale with t) the same defect leaves a constant part: Delta(t) = d0 + t d1 + t^2 d2,
    fitted at t = 0, 1, 2 and verified at t = 3."""
    if model not in SUSPECT_MODELS:
        return None
    if n > 80:
        return classify_directional(c, model, fint, kT, cu, KT, k0uu, sc_free, n, plain)

    def jac(c_):
        J = np.zeros((n, n))
        for j in range(n):
            e = np.zeros(n); e[j] = sc_free[j]
            D, _ = stencil(fint, c_, e)
            J[:, j] = D / sc_free[j]
        return J
    v = cu if np.any(cu) else sc_free * np.cos(1.0 + np.arange(n))      # zero free state: deterministic direction
    D0 = kT(0 * v) - jac(0 * v)
    D1 = kT(v) - jac(v)
    D2 = kT(2 * v) - jac(2 * v)
    D3 = kT(3 * v) - jac(3 * v)
    d2 = (D2 - 2 * D1 + D0) / 2.
    d1 = D1 - D0 - d2
    pred3 = D0 + 3 * d1 + 9 * d2
    n3 = np.linalg.norm(D3)
    noise = 1e-11 * np.linalg.norm(KT)      # round-off floor of the stencil Jacobians
    ok = np.linalg.norm(D3 - pred3) <= 1e-6 * (n3 + np.linalg.norm(D1)) + 20 * noise
    if plain and np.linalg.norm(D0) > 20 * noise:
        ok = False       # perfect shell without prescribed amplitudes: the recorded discrepancy vanishes at the undeformed state
    J1 = kT(v) - D1
    c.info['tangent_discrepancy'] = {'first_order_part_rel_to_state_part_of_J': float(np.linalg.norm(d1) / (np.linalg.norm(J1 - k0uu) + 1e-300)),
                                     'second_order_part_rel': float(np.linalg.norm(d2) / (np.linalg.norm(J1 - k0uu) + 1e-300)),
                                     'polynomial_degree_le_2_confirmed_at_t3': bool(ok),
                                     'fint_jacobian_asymmetry': float(np.linalg.norm(J1 - J1.T) / (np.linalg.norm(J1) + 1e-300))}
    info = c.info['tangent_discrepancy']
    if ok and model.startswith('clpt_sanders') and not (np.linalg.norm(d2) <= 1e-8 * np.linalg.norm(J1 - k0uu) + 20 * noise and info['fint_jacobian_asymmetry'] <= 1e-11):
        return None      # the two Sanders findings are pure first-order defects with a symmetric fint Jacobian
    if ok:
        return 'shell-tangent-inconsistent-with-fint-' + model
    return None
