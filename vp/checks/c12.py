"""C12 - penalty connection matrices = Hessian of the interface mismatch energy.

Monitor: matrices returned by the real PanelAssembly.get_k0_conn (and the
fkC*11/12/22 kernels for the homogeneity clauses) compared with O2 on the
interface line / surface: the jump of the recovered displacement fields
(Panel.uvw of each panel on unit amplitudes) integrated with numpy Gauss
points.  Convention-free consequences (symmetry, PSD, homogeneity, rigid
translations in the null space) are judged separately."""
import numpy as np

from .. import gen
from ..core import Case, entrywise_excess
from ..oracles import energy

TOL = 1e-10


def plan(tier):
    n = 320 if tier == 'quick' else 3000
    return dict(n_cases=n, shards=16, min_nontrivial=n // 3,
                min_tags={'conn:blade2d': n // 24, 'conn:t2d': n // 24, 'conn:SSycte': n // 16, 'conn:SSxcte': n // 12, 'conn:BFycte': n // 12, 'conn:BFxcte': n // 12, 'conn:SB': n // 12,
                          'order:p1_after_p2': n // 8, 'pos:interior': n // 8, 'clause:kt_kr': n // 8, 'ktkr:other_material': n // 60},
                watchdog_s=1800 if tier == 'quick' else 10000,
                rule='pairs of panels of different transverse size, series orders, laminates and edge flags but equal interface length, joined by '
                     'each of the five connection kinds at edge and interior interface positions; p1 before or after p2 in the global vector with '
                     'other panels in between; kt, kr from calc_kt_kr and over ten decades in the kernel-level clauses; non-trivial = unequal '
                     'panels or interior position or p1 after p2; distinct = hash of the description',
                assumptions=['jump operators: SS (u1-u2, v1-v2, w1-w2) + slope across the line; BFycte (u1-u2, v1-w2, w1+v2) + (w1,y - w2,y); '
                             'BFxcte (u1-w2, v1-v2, w1+u2) + (w1,x - w2,x); SB (u1+dsb*w1,x-u2, v1+dsb*w1,y-v2, w1-w2), no rotation term '
                             '(documented in connections/__init__.py; each reproduced the pinned kernels to 1e-16 before being adopted)',
                             'entry-wise tolerance 1e-10 of the absolute-value scale'])


def line_points(p1, p2, cn):
    """interface quadrature: returns (xs1, ys1, xs2, ys2, weights)"""
    ng = max(p1.m, p1.n, p2.m, p2.n, 4) + 3
    g, w = np.polynomial.legendre.leggauss(ng)
    f = cn['func']
    if f in ('SSycte', 'BFycte'):
        a = p1.a
        xs = (g + 1) * a / 2
        ww = w * a / 2
        return xs, np.full(ng, cn['ycte1']), xs, np.full(ng, cn['ycte2']), ww
    if f in ('SSxcte', 'BFxcte'):
        b = p1.b
        ys = (g + 1) * b / 2
        ww = w * b / 2
        return np.full(ng, cn['xcte1']), ys, np.full(ng, cn['xcte2']), ys, ww
    # SB: surface
    X, Y = np.meshgrid((g + 1) * p1.a / 2, (g + 1) * p1.b / 2, indexing='ij')
    W = np.outer(w * p1.a / 2, w * p1.b / 2)
    return X.ravel(), Y.ravel(), X.ravel(), Y.ravel(), W.ravel()


def conn_oracle(p1, p2, cn, kt, kr, size, dsb=None):
    x1, y1, x2, y2, w = line_points(p1, p2, cn)
    U1 = energy.disp_basis(p1, x1, y1)     # u v w phix phiy ; phix = -w,x
    U2 = energy.disp_basis(p2, x2, y2)
    n1, n2 = U1.shape[2], U2.shape[2]
    npts = w.size
    f = cn['func']
    Z1 = np.zeros((npts, n1)); Z2 = np.zeros((npts, n2))

    def J(a1, a2):
        return np.concatenate([a1, a2], axis=1)     # [npts, n1+n2]
    u1, v1, w1, px1, py1 = U1
    u2, v2, w2, px2, py2 = U2
    if f in ('SSycte', 'SSxcte'):
        Jt = [J(u1, -u2), J(v1, -v2), J(w1, -w2)]
        Jr = [J(py1, -py2)] if f == 'SSycte' else [J(px1, -px2)]
    elif f == 'BFycte':
        Jt = [J(u1, -u2), J(v1, -w2), J(w1, v2)]
        Jr = [J(py1, -py2)]
    elif f == 'BFxcte':
        Jt = [J(u1, -w2), J(v1, -v2), J(w1, u2)]
        Jr = [J(px1, -px2)]
    else:
        Jt = [J(u1 - dsb * px1, -u2), J(v1 - dsb * py1, -v2), J(w1, -w2)]
        Jr = []
        kr = 0.0
    Jt = np.array(Jt); Kt, St = energy.quad_form(Jt, kt * np.eye(len(Jt)), w)
    if Jr:
        Jr = np.array(Jr); Kr, Sr = energy.quad_form(Jr, kr * np.eye(1), w)
    else:
        Kr = Sr = 0.0
    Kl = Kt + Kr
    Sl = St + Sr
    K = np.zeros((size, size)); S = np.zeros((size, size))
    idx = np.concatenate([np.arange(p1.row_start, p1.row_end), np.arange(p2.row_start, p2.row_end)])
    K[np.ix_(idx, idx)] = Kl
    S[np.ix_(idx, idx)] = Sl
    return K, S, idx, (n1, n2)


def case_blade2d(rng, tier):
    """the skin-flange connection a BladeStiff2D builds itself (fkCss + fkCsf + fkCff with the bay's and the flange's own
    edge flags): stiffener k0 minus its base and flange panels' own k0 = Hessian of the BFycte mismatch energy between the
    bay skin series at y = ys and the flange series at y = 0"""
    from compmech.panel import Panel
    import compmech.panel.connections as connections
    d = gen.bay_desc(rng, mmax=5, nstiff=(1, 1), kinds=('blade2d',), ncuts=int(rng.integers(1, 3)),
                     fl=gen.flags(rng, style=str(rng.choice(['ss', 'clamped', 'mixed', 'free', 'binary', 'real']))))
    c = Case({'kind': 'blade2d', 'bay': d})
    c.tag('conn:blade2d', 'flags:' + d['flags']['_style'], 'base' if 'bstack' in d['stiffeners'][0] else 'nobase')
    c.nontrivial = True
    try:
        bay = gen.build_bay(d)
        size = bay.get_size()
        bay.calc_k0(silent=True)
        st = bay.bladestiff2ds[0]
        ns = 3 * bay.m * bay.n
        # the bay asks its stiffeners for unfinalized (upper-triangle) pieces; the finalized contribution is requested here
        st.calc_k0(size=size, row0=ns, col0=ns, silent=True, finalize=True)
        Ks = st.k0.toarray()
        Kp = np.zeros((size, size)); Sp = np.zeros((size, size))
        if st.base is not None:
            kb = st.base.calc_k0(size=size, row0=0, col0=0, silent=True).toarray(); Kp += kb; Sp += np.abs(kb)
        kf = st.flange.calc_k0(size=size, row0=ns, col0=ns, silent=True).toarray(); Kp += kf; Sp += np.abs(kf)
        kt, kr = connections.calc_kt_kr(st.base if st.base is not None else st.panel1, st.flange, 'ycte')
    except Exception as e:
        return c.reject('%s building the stiffened bay: %s' % (type(e).__name__, str(e)[:100]))
    c.hit('BladeStiff2D.calc_k0')
    skin = Panel(a=bay.a, b=bay.b, m=bay.m, n=bay.n, r=bay.r, stack=list(d['stack']), plyt=d['plyt'], laminaprop=tuple(d['laminaprop']))
    gen.apply_flags(skin, d['flags'])
    skin.calc_k0(silent=True)
    skin.row_start, skin.row_end = 0, ns
    fl = st.flange
    fl.row_start, fl.row_end = ns, ns + 3 * fl.m * fl.n
    cn = {'func': 'BFycte', 'ycte1': float(st.ys), 'ycte2': 0.0}
    Ko, S, idxs, _ = conn_oracle(skin, fl, cn, kt, kr, size)
    S = S + 1e-5 * Sp        # subtraction of the panels' own k0: an absolute round-off of ~eps*|k0| per entry (1e-5 * 1e-10)
    ratio, ij = entrywise_excess(Ks - Kp, Ko, S, TOL)
    c.judge('stiffener k0 minus its panels\' k0 equals the Hessian of the skin-flange mismatch energy', ratio * TOL, TOL,
            data={'entry': ij, 'code': float((Ks - Kp)[ij]), 'oracle': float(Ko[ij])})
    return c


def case_t2d(rng, tier):
    """the two connections a TStiff2D builds itself: skin-base face to face over the strip ys +- bb/2 (penalty capped at 1e7,
    thickness offset dpb) and base-flange along the base centre line"""
    from compmech.panel import Panel
    import compmech.panel.connections as connections
    d = gen.bay_desc(rng, mmax=5, nstiff=(1, 1), kinds=('t2d',), ncuts=int(rng.integers(1, 3)),
                     fl=gen.flags(rng, style=str(rng.choice(['ss', 'clamped', 'mixed', 'free', 'binary', 'real']))))
    c = Case({'kind': 't2d', 'bay': d})
    c.tag('conn:t2d', 'flags:' + d['flags']['_style'])
    c.nontrivial = True
    try:
        bay = gen.build_bay(d)
        size = bay.get_size()
        bay.calc_k0(silent=True)
        st = bay.tstiff2ds[0]
        ns = 3 * bay.m * bay.n
        # the base-flange line may sit anywhere across the base and the flange (attributes eta_conn_base / eta_conn_flange)
        if rng.random() < 0.5:
            st.eta_conn_base = float(rng.uniform(-1, 1))
        if rng.random() < 0.5:
            st.eta_conn_flange = float(rng.uniform(-1, 1))
        c.desc['eta_conn'] = [float(st.eta_conn_base), float(st.eta_conn_flange)]
        st.calc_k0(size=size, row0=ns, col0=ns, silent=True, finalize=True)
        Ks = st.k0.toarray()
        nb = st.base.get_size()
        kb = st.base.calc_k0(size=size, row0=ns, col0=ns, silent=True).toarray()
        kf = st.flange.calc_k0(size=size, row0=ns + nb, col0=ns + nb, silent=True).toarray()
        ktpb, _ = connections.calc_kt_kr(st.panel1, st.base, 'bot-top')
        ktpb = min(1.e7, ktpb)
        ktbf, krbf = connections.calc_kt_kr(st.base, st.flange, 'ycte')
    except Exception as e:
        return c.reject('%s building the stiffened bay: %s' % (type(e).__name__, str(e)[:100]))
    c.hit('TStiff2D.calc_k0')
    skin = Panel(a=bay.a, b=bay.b, m=bay.m, n=bay.n, r=bay.r, stack=list(d['stack']), plyt=d['plyt'], laminaprop=tuple(d['laminaprop']))
    gen.apply_flags(skin, d['flags'])
    skin.calc_k0(silent=True)
    base, fl = st.base, st.flange
    # face-to-face part: skin point (x, y1 + eta) against base point (x, eta)
    ng = max(bay.m, bay.n, base.m, base.n, 4) + 3
    g, w = np.polynomial.legendre.leggauss(ng)
    X, E = np.meshgrid((g + 1) * bay.a / 2, (g + 1) * base.b / 2, indexing='ij')
    W = np.outer(w * bay.a / 2, w * base.b / 2).ravel()
    y1 = st.ys - base.b / 2.
    U1 = energy.disp_basis(skin, X.ravel(), y1 + E.ravel())
    U2 = energy.disp_basis(base, X.ravel(), E.ravel())
    u1, v1, w1, px1, py1 = U1
    u2, v2, w2, px2, py2 = U2
    J = lambda a1, a2: np.concatenate([a1, a2], axis=1)
    Jt = np.array([J(u1 - st.dpb * px1, -u2), J(v1 - st.dpb * py1, -v2), J(w1, -w2)])
    Kl, Sl = energy.quad_form(Jt, ktpb * np.eye(3), W)
    Ko = np.zeros((size, size)); S = np.zeros((size, size))
    idx = np.concatenate([np.arange(0, ns), np.arange(ns, ns + nb)])
    Ko[np.ix_(idx, idx)] += Kl; S[np.ix_(idx, idx)] += Sl
    # base-flange line
    base.row_start, base.row_end = ns, ns + nb
    fl.row_start, fl.row_end = ns + nb, ns + nb + fl.get_size()
    cn = {'func': 'BFycte', 'ycte1': (st.eta_conn_base + 1) / 2. * base.b, 'ycte2': (st.eta_conn_flange + 1) / 2. * fl.b}
    K2, S2, _, _ = conn_oracle(base, fl, cn, ktbf, krbf, size)
    Ko += K2; S += S2
    S = S + 1e-5 * (np.abs(kb) + np.abs(kf))       # round-off of the subtraction, ~eps*|k0| per entry
    # the strip integrals come from the sub-interval tables: round-off grows with b / strip width (see gen.subinterval_amplification)
    tol = TOL * max(1.0, bay.b / base.b) * 10
    ratio, ij = entrywise_excess(Ks - kb - kf, Ko, S, tol)
    c.judge('T stiffener k0 minus its panels\' k0 equals the Hessian of the skin-base and base-flange mismatch energies', ratio * tol, tol,
            data={'entry': ij, 'code': float((Ks - kb - kf)[ij]), 'oracle': float(Ko[ij])})
    return c


def run_case(rng, tier, idx):
    if idx % 8 == 7:
        return case_blade2d(rng, tier) if (idx // 8) % 2 == 0 else case_t2d(rng, tier)
    from compmech.panel.assembly import PanelAssembly
    import compmech.panel.connections as connections
    kind = gen.CONN_KINDS[idx % 5] if rng.random() < 0.8 else str(rng.choice(gen.CONN_KINDS))
    ad = gen.assembly_desc(rng, npan=2, mmax=5 if tier == 'quick' else 7, kinds=(kind,), models=('plate', 'plate', 'cpanel'), shuffle=False)
    # extra unrelated panels in between / around, and both orders of p1, p2
    nextra = int(rng.integers(0, 3))
    extras = [gen.panel_desc(rng, model='plate', mmax=3, sub=False, place=False) for _ in range(nextra)]
    p1_first = bool(rng.random() < 0.5)
    cn = dict(ad['conns'][0])
    c = Case({'conn': cn, 'p1': ad['panels'][0], 'p2': ad['panels'][1], 'n_extra': nextra, 'p1_first': p1_first})
    c.tag('conn:' + kind, 'order:p1_before_p2' if p1_first else 'order:p1_after_p2')
    pos_keys = [k for k in cn if k.endswith('cte1') or k.endswith('cte2')]
    interior = False
    for k in pos_keys:
        full = ad['panels'][0 if k.endswith('1') else 1]['b' if k.startswith('y') else 'a']
        if 0 < cn[k] < full:
            interior = True
    c.tag('pos:interior' if interior else 'pos:edge')
    p1 = gen.build_panel(ad['panels'][0]); p2 = gen.build_panel(ad['panels'][1])
    for q_ in (p1, p2):
        for k_ in gen.leftovers(rng, q_):
            c.tag('left:' + k_)
    ex = [gen.build_panel(d) for d in extras]
    seq = [p1, p2] if p1_first else [p2, p1]
    pos = sorted(int(x) for x in rng.integers(0, 3, len(ex)))
    for q, e in zip(pos, ex):
        seq.insert(q, e)
    cn['p1'] = p1; cn['p2'] = p2
    ass = PanelAssembly(seq, conn=[cn])
    size = ass.get_size()
    c.nontrivial = True
    for p in (p1, p2):
        p.calc_k0(silent=True)       # derives r, laminate (history dependence is C20's subject)
    ktype = {'SSycte': 'ycte', 'BFycte': 'ycte', 'SSxcte': 'xcte', 'BFxcte': 'xcte', 'SB': 'bot-top'}[kind]
    try:
        kt, kr = connections.calc_kt_kr(p1, p2, ktype)
        KC = ass.get_k0_conn()
    except Exception as e:
        return c.reject('%s in get_k0_conn: %s' % (type(e).__name__, str(e)[:100]))
    c.hit('get_k0_conn')
    KC = KC.toarray()
    dsb = sum(p1.plyts) / 2. + sum(p2.plyts) / 2.
    Ko, S, idxs, (n1, n2) = conn_oracle(p1, p2, cn, kt, kr if kr is not None else 0., size, dsb=dsb)
    ratio, ij = entrywise_excess(KC, Ko, S, TOL)
    mech = None
    c.judge('connection matrix equals the Hessian of the interface mismatch energy', ratio * TOL, TOL, mechanism=mech,
            data={'entry': ij, 'code': KC[ij], 'oracle': Ko[ij], 'p1_range': [p1.row_start, p1.row_end], 'p2_range': [p2.row_start, p2.row_end]})
    # convention-free consequences
    c.expect('symmetric', np.array_equal(KC, KC.T))
    ev = np.linalg.eigvalsh((KC + KC.T) / 2)
    c.judge('positive semi-definite', max(0.0, -ev.min()), 1e-9 * max(ev.max(), 1e-300))
    out = np.ones(size, bool); out[idxs] = False
    c.expect('touches only the two connected panels', not KC[out, :].any() and not KC[:, out].any())
    # rigid translations of unrestrained panels produce no mismatch
    if rng.random() < 0.5:
        c.tag('clause:nullspace')
        fr = gen.flags(rng, 'free')
        d1 = dict(ad['panels'][0]); d2 = dict(ad['panels'][1])
        d1['flags'] = fr; d2['flags'] = fr
        d1['m'] = max(d1['m'], 3); d1['n'] = max(d1['n'], 3); d2['m'] = max(d2['m'], 3); d2['n'] = max(d2['n'], 3)
        q1 = gen.build_panel(d1); q2 = gen.build_panel(d2)
        cn2 = dict(cn); cn2['p1'] = q1; cn2['p2'] = q2
        as2 = PanelAssembly([q1, q2] if p1_first else [q2, q1], conn=[cn2])
        q1.calc_k0(silent=True); q2.calc_k0(silent=True)
        K2 = as2.get_k0_conn().toarray()

        def transl(q, comp):
            v = np.zeros(3 * q.m * q.n)
            for j in (0, 2):
                for i in (0, 2):
                    v[3 * (j * q.m + i) + comp] = 1.0
            return v
        pairs = {'SSycte': [((0, 1), (0, 1)), ((1, 1), (1, 1)), ((2, 1), (2, 1))],
                 'SSxcte': [((0, 1), (0, 1)), ((1, 1), (1, 1)), ((2, 1), (2, 1))],
                 'BFycte': [((0, 1), (0, 1)), ((1, 1), (2, 1)), ((2, 1), (1, -1))],
                 'BFxcte': [((0, 1), (2, 1)), ((1, 1), (1, 1)), ((2, 1), (0, -1))],
                 'SB': [((0, 1), (0, 1)), ((1, 1), (1, 1)), ((2, 1), (2, 1))]}[kind]
        for (c1, s1), (c2, s2) in pairs:
            v = np.zeros(as2.get_size())
            v[q1.row_start:q1.row_end] = s1 * transl(q1, c1)
            v[q2.row_start:q2.row_end] = s2 * transl(q2, c2)
            en = float(v @ K2 @ v)
            c.judge('a common rigid translation of both panels stores no interface energy', abs(en), 1e-10 * float(np.abs(v) @ np.abs(K2) @ np.abs(v)) + 1e-300)
    # proportional to the penalty constants (kernel level, ten decades)
    if rng.random() < 0.5:
        c.tag('clause:homogeneity')
        mod = getattr(connections, 'kC' + kind)
        s = float(10 ** rng.uniform(-5, 5))
        if kind == 'SB':
            A = mod.fkCSB12(kt, dsb, p1, p2, size, p1.row_start, p2.col_start).toarray()
            Bm = mod.fkCSB12(kt * s, dsb, p1, p2, size, p1.row_start, p2.col_start).toarray()
        else:
            pk = 'ycte' if 'ycte' in kind else 'xcte'
            f12 = getattr(mod, 'fk%s12' % ('C' + kind))
            A = f12(kt, kr, p1, p2, cn[pk + '1'], cn[pk + '2'], size, p1.row_start, p2.col_start).toarray()
            Bm = f12(kt * s, kr * s, p1, p2, cn[pk + '1'], cn[pk + '2'], size, p1.row_start, p2.col_start).toarray()
        sc = np.abs(A) * s + 1e-300
        c.judge('proportional to the penalty constants', float((np.abs(Bm - s * A) / (sc + 1e-9 * sc.max())).max()), 1e-12)
    # penalty constants: symmetric in the panels, degree-1 homogeneous in the moduli
    if rng.random() < 0.5:
        c.tag('clause:kt_kr')
        # 'bot-top' divides by min(a, b) of the first panel; face-to-face panels share a and b,
        # so it is only exercised on SB pairs (its geometric precondition)
        for typ in (('xcte', 'ycte', 'bot-top') if kind == 'SB' else ('xcte', 'ycte')):
            a1 = connections.calc_kt_kr(p1, p2, typ)
            a2 = connections.calc_kt_kr(p2, p1, typ)
            for x, y in zip(a1, a2):
                if x is None or y is None:
                    continue
                c.judge('calc_kt_kr symmetric in the two panels', abs(x - y), 1e-12 * abs(x))
        # fresh objects (nothing evaluated, no laminate attached yet), the second laminate a relative of the first in 60% of the
        # cases (same lay-up with other materials / one other ply material / other offset / other thicknesses; per-ply or
        # uniform argument form): the constants are functions of the two laminates only
        dA = dict(ad['panels'][0]); dB = dict(ad['panels'][1])
        rel_kind = 'unrelated'
        if rng.random() < 0.6:
            lamA = dict(dA['lam']); lamB = dict(lamA)
            nply = len(lamA['stack'])
            rel_kind = str(rng.choice(['other_material', 'one_ply_other_material', 'other_offset', 'other_thicknesses']))
            if rel_kind == 'other_material':
                m2 = gen.material(rng, len(lamA['laminaprops'][0]))
                lamB['laminaprops'] = [list(m2)] * nply
            elif rel_kind == 'one_ply_other_material':
                m2 = gen.material(rng, len(lamA['laminaprops'][0]))
                lps = [list(x) for x in lamA['laminaprops']]
                lps[int(rng.integers(0, nply))] = list(m2)
                lamB['laminaprops'] = lps
            elif rel_kind == 'other_offset':
                lamB['offset'] = float(lamA['offset'] + rng.uniform(-1, 1) * sum(lamA['plyts']))
            else:
                lamB['plyts'] = [float(t_ * rng.uniform(0.5, 2)) for t_ in lamA['plyts']]
            if rng.random() < 0.7 or rel_kind != 'other_material':
                lamA['uniform'] = False
            lamB['uniform'] = False
            dA['lam'] = lamA; dB['lam'] = lamB
        c.tag('ktkr:' + rel_kind)
        c.desc['ktkr_pair'] = {'relation': rel_kind, 'lamA': dA['lam'], 'lamB': dB['lam']}
        for typ in (('xcte', 'ycte', 'bot-top') if kind == 'SB' else ('xcte', 'ycte')):
            f1, f2 = gen.build_panel(dA), gen.build_panel(dB)
            g1, g2 = gen.build_panel(dA), gen.build_panel(dB)
            u1, u2 = gen.build_panel(dA), gen.build_panel(dB)
            u1.calc_k0(silent=True); u2.calc_k0(silent=True)
            # the connection type is matched case-insensitively by the package: both spellings are the same request
            x_ = connections.calc_kt_kr(f1, f2, typ.upper() if rng.random() < 0.3 else typ)
            y_ = connections.calc_kt_kr(g2, g1, typ)
            z_ = connections.calc_kt_kr(u1, u2, typ)
            for x, y, z in zip(x_, y_, z_):
                if x is None:
                    continue
                c.judge('calc_kt_kr on fresh objects symmetric in the two panels', abs(x - y), 1e-12 * abs(x))
                c.judge('calc_kt_kr on fresh objects equals calc_kt_kr after the panels evaluated their stiffness', abs(x - z), 1e-12 * abs(x))
        e = float(10 ** rng.uniform(-3, 3))

        def scaled(dd):
            d2 = dict(dd); lam = dict(dd['lam'])
            lps = []
            for lp in lam['laminaprops']:
                lp = list(lp)
                for k in (0, 1, 3, 4, 5, 6):
                    if k < len(lp):
                        lp[k] = lp[k] * e
                lps.append(lp)
            lam['laminaprops'] = lps
            d2['lam'] = lam
            return d2
        r1 = gen.build_panel(scaled(ad['panels'][0])); r2 = gen.build_panel(scaled(ad['panels'][1]))
        for typ in ('xcte', 'ycte', 'bot-top'):
            a1 = connections.calc_kt_kr(p1, p2, typ)
            a3 = connections.calc_kt_kr(r1, r2, typ)
            for x, y in zip(a1, a3):
                if x is None:
                    continue
                c.judge('calc_kt_kr scales linearly with the elastic moduli', abs(y - e * x), 1e-10 * abs(e * x))
    return c
