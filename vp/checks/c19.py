"""C19 - piston-theory aerodynamic matrices represent the stated pressure law.

Monitor: matrices returned by the real Panel.calc_kA / calc_cA (and
StiffPanelBay.calc_kA) compared with O2 bilinear forms built from the
recovered w and slopes; structure (skew / symmetric), linearity, the axis
exchange relation and the Mach-number route are further real executions."""
import numpy as np

from .. import gen
from ..core import Case, entrywise_excess
from ..oracles import energy, series

TOL = 1e-10


def plan(tier):
    n = 400 if tier == 'quick' else 6000
    return dict(n_cases=n, shards=16, min_nontrivial=n // 3,
                min_tags={'flow:x': n // 5, 'flow:y': n // 5, 'model:cpanel': n // 8, 'clause:mach': n // 20, 'clause:exchange': n // 20,
                          'clause:cA': n // 10, 'gamma:nonzero': n // 10, 'clause:redefined': n // 6},
                watchdog_s=1800 if tier == 'quick' else 10000,
                rule='flat / w-only / cylindrical panels, random geometry, orders and laminates, edge flags random except that w is restrained '
                     '(translation flag 0) on the upstream and downstream edges of the flow; beta, gamma, aeromu of both signs over six decades '
                     '(gamma only with flow x on cylindrical panels); Mach in (1,10] incl. exactly 1; control group with w free on a flow edge judged '
                     'on structure/linearity only; non-trivial = gamma != 0 or flow y or Mach route; distinct = hash of the description',
                assumptions=['gamma is exercised only for flow along x: the flow-y kernel has no curvature term and the statement ties gamma to curved panels without fixing that case',
                             'entry-wise tolerance 1e-10 of the absolute-value scale'])


def w_basis(p, d, xs, ys):
    if d['model'] == 'plate_w':
        U = series.disp_U(p, 2 * xs / p.a - 1., 2 * ys / p.b - 1., p.a, p.b, num=1)
    else:
        U = energy.disp_basis(p, xs, ys)
    return U[2:3], -U[3:4], -U[4:5]      # w, w,x, w,y  each [1, npts, size]


def exchange_desc(d):
    """panel with the roles of x and y exchanged (a<->b, m<->n, flags x<->y)"""
    e = dict(d)
    e['a'], e['b'] = d['b'], d['a']
    e['m'], e['n'] = d['n'], d['m']
    fl = {}
    for k, v in d['flags'].items():
        if k.startswith('_'):
            fl[k] = v
        else:
            fl[k[:3] + ('y' if k[3] == 'x' else 'x')] = v
    e['flags'] = fl
    return e


def run_case(rng, tier, idx):
    model = str(rng.choice(['plate', 'plate_w', 'cpanel', 'cpanel']))
    flow = str(rng.choice(['x', 'y']))
    d = gen.panel_desc(rng, model=model, mmax=7, sub=False, place=False)
    control = rng.random() < 0.12
    # enough terms along the flow for at least one interior (index >= 4) function
    d['m'] = max(d['m'], 5)
    d['n'] = max(d['n'], 5)
    d['size'] = (1 if model == 'plate_w' else 3) * d['m'] * d['n']
    fl = d['flags']
    if not control:
        for e in '12':
            fl['w%st%s' % (e, flow)] = 0.0
    else:
        fl['w1t%s' % flow] = 1.0
    beta = float(rng.choice([-1, 1]) * 10 ** rng.uniform(-2, 4))
    gamma = 0.0
    if model == 'cpanel' and flow == 'x' and rng.random() < 0.7:
        gamma = float(rng.choice([-1, 1]) * 10 ** rng.uniform(-2, 4))
    aeromu = float(rng.choice([-1, 1]) * 10 ** rng.uniform(-3, 3))
    c = Case({'panel': d, 'flow': flow, 'beta': beta, 'gamma': gamma, 'aeromu': aeromu, 'control_group': control})
    c.tag('model:' + model, 'flow:' + flow, 'gamma:nonzero' if gamma else 'gamma:zero', 'control' if control else 'domain')
    c.nontrivial = gamma != 0 or flow == 'y'
    p = gen.build_panel(d)
    num = 1 if model == 'plate_w' else 3
    size = num * d['m'] * d['n']
    # the accepted spellings of the flow direction ('x', 'X', 'y', 'Y')
    spelled = flow.upper() if rng.random() < 0.3 else flow
    c.tag('flow_spelled:' + spelled)
    p.flow = spelled
    p.beta = beta
    p.gamma = gamma if gamma else None
    fresh = bool(rng.random() < 0.4)
    c.tag('order:fresh' if fresh else 'order:k0_first')
    try:
        if not fresh:
            p.calc_k0(silent=True)
        kA = p.calc_kA(silent=True)
    except Exception as e:
        return c.reject('%s in calc_kA: %s' % (type(e).__name__, str(e)[:100]))
    c.hit('calc_kA')
    A = kA.toarray()
    if num == 3:
        uv = np.ones(size, bool); uv[2::3] = False
        c.expect('acts on out-of-plane amplitudes only', not A[uv, :].any() and not A[:, uv].any())
    nx, ny = energy.exact_orders(p)
    xs, ys, w = energy.gauss_grid(p, nx, ny)
    W, Wx, Wy = w_basis(p, d, xs, ys)
    Wf = Wx if flow == 'x' else Wy
    Kb, Sb = energy.bilinear_form(W, np.array([[beta]]), Wf, w)        # beta * int w_A dw_B/dflow
    Kg, Sg = energy.quad_form(W, np.array([[-gamma]]), w)             # -gamma * int w_A w_B
    if Sb.max() == 0:
        return c.reject('degenerate: no active out-of-plane amplitude (all w flags zero and too few terms)')
    # second execution separating the parts
    p.gamma = None
    Abeta = p.calc_kA(silent=True).toarray()
    Agam = A - Abeta
    if not control:
        ratio, ij = entrywise_excess(A, Kb + Kg, Sb + Sg, TOL)
        mech = None
        if ratio > 1 and gamma != 0:
            # defect model of the recorded finding: the gamma part was skew-symmetrised with the beta part
            Kg_sk = np.triu(Kg) - np.triu(Kg, 1).T
            r2, _ = entrywise_excess(A, Kb + Kg_sk, Sb + Sg, TOL)
            if r2 <= 1:
                mech = 'kA-gamma-part-skew-symmetrised'
        c.judge('kA equals beta*int(w_A dw_B/dflow) - gamma*int(w_A w_B)', ratio * TOL, TOL, mechanism=mech,
                data={'entry': ij, 'code': A[ij], 'oracle': (Kb + Kg)[ij]})
        sc = Sb + 1e-6 * Sb.max()
        c.judge('flow-derivative part is skew-symmetric', float((np.abs(Abeta + Abeta.T) / sc).max()), 1e-10)
    if gamma:
        scg = Sg + 1e-6 * Sg.max()
        mech = None
        asym = float((np.abs(Agam - Agam.T) / scg).max())
        if asym > 1e-10:
            Kg_sk = np.triu(Kg) - np.triu(Kg, 1).T
            if float((np.abs(Agam - Kg_sk) / scg).max()) <= 1e-9:
                mech = 'kA-gamma-part-skew-symmetrised'
        c.judge('curvature part is symmetric', asym, 1e-10, mechanism=mech)
    # the same panel placed inside a larger matrix (as assemblies do): the block moves to (row0, col0), nothing else appears
    if rng.random() < 0.5:
        c.tag('clause:placed')
        r0 = num * int(rng.integers(1, 9)); tail = num * int(rng.integers(0, 5))
        big = r0 + size + tail
        p.beta = beta; p.gamma = gamma if gamma else None
        try:
            Ap = p.calc_kA(size=big, row0=r0, col0=r0, silent=True).toarray()
            blk = Ap[r0:r0 + size, r0:r0 + size]
            rest = Ap.copy(); rest[r0:r0 + size, r0:r0 + size] = 0.0
            c.expect('placed kA: the panel block equals the stand-alone matrix', np.array_equal(blk, A), 'row0=%d' % r0)
            c.expect('placed kA: zero outside the panel block', not rest.any(), 'max outside %r' % float(np.abs(rest).max()))
            p.calc_cA(aeromu, size=big, row0=r0, col0=r0, silent=True)
            Cp = p.cA.toarray()
            p.calc_cA(aeromu, silent=True)
            C0 = p.cA.toarray()
            restc = Cp.copy(); restc[r0:r0 + size, r0:r0 + size] = 0.0
            c.expect('placed cA: block equals the stand-alone matrix and nothing lies outside', np.array_equal(Cp[r0:r0 + size, r0:r0 + size], C0) and not restc.any())
        except Exception as e:
            c.info['placed_rejected'] = '%s: %s' % (type(e).__name__, str(e)[:80])
    # linearity in beta and gamma: two more executions
    s1, s2 = float(rng.uniform(-3, 3)), float(rng.uniform(-3, 3))
    p.beta = beta * s1; p.gamma = None
    A1 = p.calc_kA(silent=True).toarray()
    c.judge('linear in beta', float((np.abs(A1 - s1 * Abeta) / (abs(s1) * Sb + 1e-6 * abs(s1) * Sb.max() + 1e-300)).max()), 1e-12)
    if gamma:
        p.beta = beta; p.gamma = gamma * s2
        A2 = p.calc_kA(silent=True).toarray()
        c.judge('linear in gamma', float((np.abs((A2 - Abeta) - s2 * Agam) / (abs(s2) * Sg + (1 + abs(s2)) * Sb * 1e-5 + 1e-6 * abs(s2) * Sg.max() + 1e-300)).max()), 1e-10)
    # damping matrix
    if rng.random() < 0.5:
        c.tag('clause:cA')
        try:
            p.calc_cA(aeromu, silent=True)
            cA = p.cA.toarray()
        except Exception as e:
            c.info['cA_rejected'] = repr(e)[:100]
            cA = None
        if cA is not None:
            c.hit('calc_cA')
            Kc, Sc = energy.quad_form(W, np.array([[-aeromu]]), w)
            c.expect('cA is purely imaginary', not np.real(cA).any())
            ratio, ij = entrywise_excess(np.imag(cA), Kc, Sc, TOL)
            c.judge('cA equals -aeromu*int(w_A w_B) times 1j', ratio * TOL, TOL)
            c.expect('cA symmetric', np.array_equal(cA, cA.T))
            if num == 3:
                c.expect('cA acts on out-of-plane amplitudes only', not cA[uv, :].any() and not cA[:, uv].any())
    # the same object after a redefinition (an edge restraint of w, a dimension, the radius, the series orders reassigned): the
    # matrix asked for now is the one of the panel as defined now
    if not control and rng.random() < 0.35:
        c.tag('clause:redefined')
        d2 = dict(d); d2['flags'] = dict(d['flags'])
        other = 'y' if flow == 'x' else 'x'
        what = str(rng.choice(['wrot', 'wrot', 'wtrans_other', 'a', 'b', 'radius', 'swap_mn']))
        if what == 'radius' and model != 'cpanel':
            what = 'wrot'
        if what == 'swap_mn' and d['m'] == d['n']:
            what = 'a'
        if what == 'wrot':
            k_ = 'w%sr%s' % (str(rng.choice(['1', '2'])), str(rng.choice(['x', 'y'])))
            d2['flags'][k_] = 0.0 if d['flags'].get(k_, 1.0) else 1.0
            setattr(p, k_, d2['flags'][k_])
        elif what == 'wtrans_other':
            k_ = 'w%st%s' % (str(rng.choice(['1', '2'])), other)
            d2['flags'][k_] = 0.0 if d['flags'].get(k_, 1.0) else 1.0
            setattr(p, k_, d2['flags'][k_])
        elif what in ('a', 'b'):
            d2[what] = d[what] * float(rng.uniform(0.4, 2.5))
            setattr(p, what, d2[what])
        elif what == 'radius':
            d2['r'] = d['r'] * float(rng.uniform(0.4, 2.5))
            p.r = d2['r']
        else:
            d2['m'], d2['n'] = d['n'], d['m']
            p.m, p.n = d2['m'], d2['n']
        c.desc['redefinition'] = what
        c.tag('redef:' + what)
        p.beta = beta; p.gamma = gamma if gamma else None
        try:
            p.calc_k0(silent=True)
            Ar = p.calc_kA(silent=True).toarray()
        except Exception as e:
            return c.reject('%s in calc_kA after redefinition: %s' % (type(e).__name__, str(e)[:100]))
        q = gen.build_panel(d2)          # fresh object: carrier of the geometry for the basis only
        q.calc_k0(silent=True)
        nx2, ny2 = energy.exact_orders(q)
        xs2, ys2, w2 = energy.gauss_grid(q, nx2, ny2)
        W2, Wx2, Wy2 = w_basis(q, d2, xs2, ys2)
        Kb2, Sb2 = energy.bilinear_form(W2, np.array([[beta]]), Wx2 if flow == 'x' else Wy2, w2)
        Kg2, Sg2 = energy.quad_form(W2, np.array([[-gamma]]), w2)
        ratio, ij = entrywise_excess(Ar, Kb2 + Kg2, Sb2 + Sg2, TOL)
        mech = None
        if ratio > 1 and gamma != 0:
            Kg_sk = np.triu(Kg2) - np.triu(Kg2, 1).T
            r2, _ = entrywise_excess(Ar, Kb2 + Kg_sk, Sb2 + Sg2, TOL)
            if r2 <= 1:
                mech = 'kA-gamma-part-skew-symmetrised'
        c.judge('kA after a redefinition of the object equals the stated form for the panel as defined now', ratio * TOL, TOL, mechanism=mech,
                data={'what': what})
    # flow along y equals flow along x on the axis-exchanged panel
    if flow == 'y' and model != 'cpanel' and rng.random() < 0.6:
        c.tag('clause:exchange')
        e = exchange_desc(d)
        pe = gen.build_panel(e)
        pe.flow = 'x'; pe.beta = beta
        pe.calc_k0(silent=True)
        Ae = pe.calc_kA(silent=True).toarray()
        m_, n_ = d['m'], d['n']
        # dof (i,j) of the original <-> dof (j,i) of the exchanged panel
        perm = np.zeros(size, dtype=int)
        for j in range(n_):
            for i in range(m_):
                for k in range(num):
                    perm[num * (j * m_ + i) + k] = num * (i * n_ + j) + k
        Aperm = Ae[np.ix_(perm, perm)]
        c.judge('flow y equals flow x on the axis-exchanged panel', float((np.abs(Abeta - Aperm) / (Sb + 1e-6 * Sb.max())).max()), 1e-10)
    # a stiffened bay (no 2-D stiffeners) delegates to its first panel
    if model != 'plate_w' and rng.random() < 0.2:
        c.tag('clause:bay')
        Mach = float(rng.uniform(1.05, 6)); rho = gen.logu(rng, 0.01, 2); V = gen.logu(rng, 100, 3000); a_s = gen.logu(rng, 200, 400)
        lam = d['lam']
        bd = {'a': d['a'], 'b': d['b'], 'm': d['m'], 'n': d['n'], 'stack': lam['stack'], 'plyt': lam['plyts'][0],
              'laminaprop': lam['laminaprops'][0], 'mu': d['mu'], 'flags': d['flags'], 'cuts': [], 'stiffeners': []}
        if model == 'cpanel':
            bd['r'] = d['r']
        try:
            bay = gen.build_bay(bd)
            bay.flow = flow; bay.Mach = Mach; bay.rho_air = rho; bay.V = V; bay.speed_sound = a_s
            bay.calc_k0(silent=True)
            Ab = bay.calc_kA(silent=True).toarray()
            from compmech.panel import Panel
            pp = Panel(a=d['a'], b=d['b'], m=d['m'], n=d['n'], stack=list(lam['stack']), plyt=lam['plyts'][0],
                       laminaprop=tuple(lam['laminaprops'][0]), mu=d['mu'], r=d.get('r'))
            gen.apply_flags(pp, d['flags'])
            pp.flow = flow; pp.Mach = Mach; pp.rho_air = rho; pp.V = V; pp.speed_sound = a_s
            pp.calc_k0(silent=True)
            Ap = pp.calc_kA(silent=True).toarray()
            c.hit('StiffPanelBay.calc_kA')
            sc = np.abs(Ap) + 1e-9 * np.abs(Ap).max() + 1e-300
            c.judge('StiffPanelBay.calc_kA equals its first panel matrix', float((np.abs(Ab - Ap) / sc).max()) if Ab.shape == Ap.shape else float('inf'), 1e-12)
            # and that matrix has the structure of the statement: beta part skew, gamma part symmetric
            Meff = Mach
            b_ = rho * V ** 2 / np.sqrt(Meff ** 2 - 1)
            g_ = b_ / (2 * d['r'] * np.sqrt(Meff ** 2 - 1)) if (model == 'cpanel') else 0.0
            if not control and flow == 'x':
                Kb2, Sb2 = energy.bilinear_form(W, np.array([[b_]]), Wf, w)
                Kg2, Sg2 = energy.quad_form(W, np.array([[-g_]]), w)
                ratio, ij = entrywise_excess(Ab, Kb2 + Kg2, Sb2 + Sg2, TOL)
                c.judge('bay kA equals the stated bilinear form (Mach route, curvature term included)', ratio * TOL, TOL)
        except Exception as e:
            c.info['bay_rejected'] = repr(e)[:120]
    # Mach-number route
    if rng.random() < 0.25:
        c.tag('clause:mach')
        Mach = float(rng.choice([1.0, 1.2, 2.0])) if rng.random() < 0.4 else float(rng.uniform(1.0001, 10))
        rho = gen.logu(rng, 0.01, 2); V = gen.logu(rng, 100, 3000); a_s = gen.logu(rng, 200, 400)
        pm = gen.build_panel(d)
        pm.flow = flow; pm.beta = None; pm.Mach = Mach; pm.rho_air = rho; pm.V = V; pm.speed_sound = a_s
        pm.calc_k0(silent=True)
        try:
            Am = pm.calc_kA(silent=True).toarray()
        except Exception as e:
            c.info['mach_rejected'] = repr(e)[:100]
            return c
        Meff = 1.0001 if Mach == 1 else Mach
        b_ = rho * V ** 2 / np.sqrt(Meff ** 2 - 1)
        g_ = b_ / (2 * d['r'] * np.sqrt(Meff ** 2 - 1)) if (model == 'cpanel' and flow == 'x') else 0.0
        pe = gen.build_panel(d)
        pe.flow = flow; pe.beta = b_; pe.gamma = g_ if g_ else None
        pe.calc_k0(silent=True)
        Ae = pe.calc_kA(silent=True).toarray()
        sc = np.abs(Ae) + 1e-9 * np.abs(Ae).max() + 1e-300
        c.judge('Mach route equals the explicit coefficients of linear piston theory', float((np.abs(Am - Ae) / sc).max()), 1e-12)
        c.desc['mach'] = dict(Mach=Mach, rho_air=rho, V=V, speed_sound=a_s)
        # the object that went through the Mach route is now given explicit coefficients (beta only, no curvature term stated):
        # the matrix must be the one of the coefficients stated NOW, nothing may be left over from the derived ones
        b2 = float(b_ * rng.uniform(0.3, 3.0))
        pm.Mach = None; pm.beta = b2          # gamma was never stated on this object and is left alone
        pf = gen.build_panel(d)
        pf.flow = flow; pf.beta = b2; pf.gamma = None
        pf.calc_k0(silent=True)
        try:
            A2 = pm.calc_kA(silent=True).toarray()
            Af = pf.calc_kA(silent=True).toarray()
            scf = np.abs(Af) + 1e-9 * np.abs(Af).max() + 1e-300
            c.judge('explicit coefficients after a Mach-route evaluation on the same object give the matrix of the explicit coefficients',
                    float((np.abs(A2 - Af) / scf).max()), 1e-12)
        except Exception as e:
            c.info['mach_then_explicit_rejected'] = repr(e)[:100]
    return c
