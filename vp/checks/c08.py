"""C08 - internal force is the energy gradient; tangent stiffness is its exact
Jacobian (panels and assemblies with penalty connections).

Monitor: the real Panel.calc_fint / calc_kT and PanelAssembly.calc_fint /
calc_kT observed on generated states; oracle O4 - the internal force is a
cubic polynomial in the amplitudes, so the 5-point central stencil gives its
directional derivative exactly (no truncation error, no step tuning)."""
import numpy as np

from .. import gen
from ..core import Case
from ..oracles import energy

TOL = 1e-9


def plan(tier):
    n = 160 if tier == 'quick' else 4000
    return dict(sanitize={'extensions': ['compmech.panel.models.plate_clt_donnell_bardell_num', 'compmech.panel.models.cpanel_clt_donnell_bardell_num'], 'n_cases': 48}, n_cases=n, shards=16, min_nontrivial=n // 3,
                min_tags={'obj:panel': n // 3, 'obj:assembly': n // 8, 'model:cpanel': n // 10, 'clause:closed_path': n // 10,
                          'table:per_point': n // 20, 'order:fresh': n // 8, 'ref_loads': n // 6},
                watchdog_s=1800 if tier == 'quick' else 10000,
                rule='plate and cylindrical panels (and assemblies of 2..4 such panels joined by SS/BF/SB penalty connections, shuffled order), '
                     'states with out-of-plane amplitudes 0.1..5 wall thicknesses plus in-plane amplitudes, B-coupled/offset laminates, random edge '
                     'flags, m,n in 1..%d, Gauss orders from 2 up to exactness (the discretised pair must be consistent for any order), uniform '
                     '6x6 and per-point tables; 6 random directions per state; non-trivial = state with non-zero w amplitudes; '
                     'distinct = hash of the description' % (5 if tier == 'quick' else 8),
                assumptions=['fint is a polynomial of degree <= 3 in the amplitudes (checked: 5-point stencil at h and h/2 must agree)',
                             'tolerance 1e-9 of the absolute-value scale of the stencil sum'])


def stencil(f, c, dc, h=1.0):
    """exact derivative of the cubic t -> f(c + t dc) at t = 0, and its scale"""
    p = [np.asarray(f(c + t * h * dc), dtype=float) for t in (-2, -1, 1, 2)]
    D = (p[0] - 8 * p[1] + 8 * p[2] - p[3]) / (12 * h)
    S = (np.abs(p[0]) + 8 * np.abs(p[1]) + 8 * np.abs(p[2]) + np.abs(p[3])) / (12 * h)
    return D, S


def judge_object(c, rng, fint, kT, k0_exact, size, wmask, t, label, ndir=6, blocks=None):
    """fint(cvec)->array, kT(cvec)->dense matrix; wmask: boolean mask of w amplitudes; blocks: index ranges of the
    components (panels of an assembly)"""
    # state
    cvec = rng.normal(size=size)
    amp = float(10 ** rng.uniform(-1, np.log10(5.0)))
    cvec[wmask] *= t * amp
    cvec[~wmask] *= t * amp * 0.05 * float(rng.uniform(0, 2))
    # states with exactly quiet parts: membrane-only, bending-only, one component without out-of-plane / any amplitudes
    pattern = str(rng.choice(['dense'] * 6 + ['membrane', 'bending', 'quiet_w', 'quiet_all']))
    blk = np.ones(size, bool)
    if blocks:
        b0, b1 = blocks[int(rng.integers(0, len(blocks)))]
        blk[:] = False; blk[b0:b1] = True
    if pattern == 'membrane':
        cvec[wmask] = 0.0
    elif pattern == 'bending':
        cvec[~wmask] = 0.0
    elif pattern == 'quiet_w':
        cvec[wmask & blk] = 0.0
    elif pattern == 'quiet_all' and blocks and len(blocks) > 1:
        cvec[blk] = 0.0
    c.tag('state:' + pattern)
    c.desc['state_pattern'] = pattern
    c.desc['amp_in_thicknesses'] = amp
    cb = cvec.copy()
    f0 = np.asarray(fint(np.zeros(size)), dtype=float)
    c.expect(label + 'fint vanishes at the undeformed state', not f0.any(), 'max %r' % float(np.abs(f0).max()))
    KT = kT(cvec)
    c.expect(label + 'state vector not modified', np.array_equal(cb, cvec))
    sc = np.abs(KT) + 1e-9 * np.abs(KT).max() + 1e-300
    c.judge(label + 'kT symmetric', float((np.abs(KT - KT.T) / sc).max()), 1e-12)
    worst = 0.0
    for k in range(ndir):
        dc = rng.normal(size=size)
        dc[wmask] *= t * amp
        dc[~wmask] *= t * amp * 0.05
        if k == 0:
            dc = np.zeros(size); j = int(rng.integers(0, size)); dc[j] = cvec[j] if cvec[j] != 0 else t
        D, S = stencil(fint, cvec, dc)
        got = KT @ dc
        Sg = np.abs(KT) @ np.abs(dc)
        # rows that vanish by structure (in-plane rows of a bending-only state, a quiet component) carry the round-off of the
        # products they are summed from: 1e-6 of sum_j |K0_ij|(|c_j| + 2|dc_j|) and of the largest row enter the scale
        lin = 1e-6 * (np.abs(k0_exact) @ (np.abs(cvec) + 2 * np.abs(dc)))
        den = S + Sg + lin; den = den + 1e-5 * den.max() + 1e-300
        c.judge(label + 'kT(c)*dc equals the derivative of fint along dc', float((np.abs(got - D) / den).max()), TOL,
                data={'direction': k})
        if k == 1:
            D2, S2 = stencil(fint, cvec, dc, h=0.5)
            c.judge(label + 'fint is cubic along the direction (stencils at h and h/2 agree)', float((np.abs(D - D2) / den).max()), TOL)
    # linear coefficient at the undeformed state equals K0 c
    D0, S0 = stencil(fint, np.zeros(size), cvec)
    ref = k0_exact @ cvec
    Sr = np.abs(k0_exact) @ np.abs(cvec)
    den = S0 + Sr; den = den + 1e-5 * den.max() + 1e-300       # absolute allowance 1e-14 of the largest row (~50 eps)
    c.judge(label + 'fint reduces to K0*c for infinitesimal states', float((np.abs(D0 - ref) / den).max()), TOL)
    KT0 = kT(np.zeros(size))
    sc0 = np.abs(k0_exact) + 1e-6 * np.abs(k0_exact).max() + 1e-300
    c.judge(label + 'tangent at the undeformed state is the linear stiffness', float((np.abs(KT0 - k0_exact) / sc0).max()), TOL)
    return cvec, amp


def closed_path(c, rng, fint, size, wmask, t, amp, label):
    """work of the internal forces around a random polygon, exact per edge (Gauss on a cubic)"""
    nv = int(rng.integers(3, 5))
    V = rng.normal(size=(nv, size))
    V[:, wmask] *= t * amp
    V[:, ~wmask] *= t * amp * 0.05
    g, w = np.polynomial.legendre.leggauss(3)
    total = 0.0
    scale = 0.0
    for k in range(nv):
        p0, p1 = V[k], V[(k + 1) % nv]
        dc = p1 - p0
        for gi, wi in zip(g, w):
            s = (gi + 1) / 2
            f = np.asarray(fint(p0 + s * dc), dtype=float)
            total += wi / 2 * float(f @ dc)
            scale += wi / 2 * float(np.abs(f) @ np.abs(dc))
    c.tag('clause:closed_path')
    c.judge(label + 'work of the internal forces around a closed path is zero', abs(total), 1e-9 * scale + 1e-300)


def run_case(rng, tier, idx):
    if rng.random() < 0.7:
        return case_panel(rng, tier)
    return case_assembly(rng, tier)


def orders(rng, p, exact):
    nxe, nye = max(p.m, 4) * 2 + 1, max(p.n, 4) * 2 + 1     # quartic integrand: degree 4*deg
    if exact:
        return nxe, nye
    return int(rng.integers(2, nxe + 1)), int(rng.integers(2, nye + 1))


def case_panel(rng, tier):
    mmax = 5 if tier == 'quick' else 8
    model = str(rng.choice(['plate', 'cpanel']))
    d = gen.panel_desc(rng, model=model, mmax=mmax, sub=False, place=False)
    c = Case({'obj': 'panel', 'panel': d})
    c.tag('obj:panel', 'model:' + model)
    p = gen.build_panel(d)
    for k_ in gen.leftovers(rng, p, loads=False):
        c.tag('left:' + k_)
    size = 3 * d['m'] * d['n']
    t = float(sum(d['lam']['plyts']))
    per_point = rng.random() < 0.2
    # exact Gauss orders: the statement ties fint -> K0 c and kT(0) = K0 to orders that integrate exactly
    nx, ny = orders(rng, p, True)
    c.desc.update(nx=nx, ny=ny, per_point=per_point)
    # the linear stiffness the clauses refer to comes from a twin object in 40% of the cases: the object under test is then
    # fresh (nothing evaluated on it) when its internal force is first asked for
    fresh = bool(rng.random() < 0.4)
    pk = gen.build_panel(d) if fresh else p
    c.tag('order:fresh' if fresh else 'order:k0_first')
    # buckling reference loads left on the object (what a preceding lb run leaves behind): no part of fint / kT
    if rng.random() < 0.5:
        p.Nxx, p.Nyy, p.Nxy = gen.load_triple(rng, float(10 ** rng.uniform(0, 5)))
        c.desc['ref_loads'] = [p.Nxx, p.Nyy, p.Nxy]
        c.tag('ref_loads')
    try:
        K0 = pk.calc_k0(silent=True).toarray()
    except Exception as e:
        return c.reject('%s in calc_k0: %s' % (type(e).__name__, str(e)[:100]))
    Farg = None
    if per_point:
        c.tag('table:per_point')
        if rng.random() < 0.7:
            # a table that really varies from point to point: F(p) = s(p) * F; the linear stiffness of the clauses
            # below is then the numerically integrated one with the same table
            spt = rng.uniform(0.5, 1.5, size=(nx, ny))
            Farg = np.ascontiguousarray(np.asarray(pk.F)[None, None, :, :] * spt[:, :, None, None])
            K0 = pk.calc_k0(silent=True, c=np.zeros(size), nx=nx, ny=ny, Fnxny=Farg).toarray()
            c.tag('table:varying')
        else:
            Farg = np.ascontiguousarray(np.broadcast_to(np.asarray(pk.F), (nx, ny, 6, 6)).copy())

    okw, okind = gen.order_kwargs(rng, p, nx, ny)
    c.tag('orders:' + okind)
    c.desc['orders_given_as'] = okind

    def fint(cv):
        c.hit('calc_fint')
        return np.asarray(p.calc_fint(np.ascontiguousarray(cv), silent=True, Fnxny=Farg, **okw))

    def kT(cv):
        c.hit('calc_kT')
        return p.calc_kT(c=np.ascontiguousarray(cv), silent=True, Fnxny=Farg, **okw).toarray()
    wmask = np.zeros(size, bool); wmask[2::3] = True
    try:
        if fresh:
            # the very first evaluation on the object is an internal force at a deformed state
            cprobe = rng.normal(size=size) * t
            cprobe[~wmask] *= 0.05
            f_first = fint(cprobe)
        cvec, amp = judge_object(c, rng, fint, kT, K0, size, wmask, t, '')
        if fresh:
            f_again = fint(cprobe)
            den = np.abs(f_again) + 1e-9 * np.abs(f_again).max() + 1e-300
            c.judge('fint asked first on a fresh object equals fint of the same state asked after the other evaluations',
                    float((np.abs(f_first - f_again) / den).max()), 1e-12)
    except Exception as e:
        return c.reject('%s in fint/kT: %s' % (type(e).__name__, str(e)[:100]))
    if rng.random() < 0.4:
        closed_path(c, rng, fint, size, wmask, t, amp, '')
    # same state in another memory layout (column of a mode matrix, strided slice, list): same results, bit for bit
    crep, rk = gen.vec_repr(rng, cvec, lists=False)
    c.tag('repr:' + rk)
    try:
        f_rep = np.asarray(p.calc_fint(crep, silent=True, Fnxny=Farg, **okw))
        k_rep = p.calc_kT(c=crep, silent=True, Fnxny=Farg, **okw).toarray()
    except Exception as e:
        return c.reject('%s for a %s amplitude vector: %s' % (type(e).__name__, rk, str(e)[:100]))
    c.expect('fint independent of the memory layout of the state vector', np.array_equal(f_rep, fint(cvec)), rk)
    c.expect('kT independent of the memory layout of the state vector', np.array_equal(k_rep, kT(cvec)), rk)
    # the caller's state array updated IN PLACE between two tangent evaluations (what an iteration loop writing c += dc does): the
    # second tangent is the one of the values the array holds now - judged against a twin object given a fresh copy of them
    if rng.random() < 0.5:
        c.tag('clause:state_updated_in_place')
        carr = np.ascontiguousarray(cvec * float(rng.uniform(0.5, 1.5)) + rng.normal(size=size) * t * amp * 0.01)      # a state not asked before
        Ka_ = p.calc_kT(c=carr, silent=True, Fnxny=Farg, **okw).toarray()
        carr *= float(rng.uniform(0.3, 0.8))
        carr[int(rng.integers(0, size))] += t * amp * 0.1
        Kb_ = p.calc_kT(c=carr, silent=True, Fnxny=Farg, **okw).toarray()
        tw = gen.build_panel(d)
        tw.calc_k0(silent=True)
        okw_t = dict(okw)
        okw_t.setdefault('nx', p.nx); okw_t.setdefault('ny', p.ny)
        Kt_ = tw.calc_kT(c=carr.copy(), silent=True, Fnxny=Farg, **okw_t).toarray()
        sck = np.abs(Kt_) + np.abs(K0) + 1e-9 * np.abs(Kt_).max() + 1e-300
        c.judge('kT of a state array updated in place equals kT of a fresh copy of the same values on a twin object',
                float((np.abs(Kb_ - Kt_) / sck).max()), 1e-11)
    # the discretised pair must be consistent for ANY Gauss order (not only exact ones)
    nx2, ny2 = orders(rng, p, False)
    c.desc.update(nx_inexact=nx2, ny_inexact=ny2)

    p.calc_k0(silent=True)      # back to the uniform laminate for the reduced-order pair

    def fint2(cv):
        return np.asarray(p.calc_fint(np.ascontiguousarray(cv), silent=True, nx=nx2, ny=ny2))
    KT2 = p.calc_kT(c=cvec, silent=True, nx=nx2, ny=ny2).toarray()
    dc = rng.normal(size=size); dc[wmask] *= t * amp; dc[~wmask] *= t * amp * 0.05
    D, S = stencil(fint2, cvec, dc)
    Sg = np.abs(KT2) @ np.abs(dc)
    den = S + Sg + 1e-9 * (S + Sg).max() + 1e-300
    c.judge('discretised fint/kT pair consistent at reduced Gauss orders', float((np.abs(KT2 @ dc - D) / den).max()), TOL)
    c.nontrivial = True
    return c


def case_assembly(rng, tier):
    ad = gen.assembly_desc(rng, npan=int(rng.integers(2, 5)), mmax=4 if tier == 'quick' else 6)
    c = Case({'obj': 'assembly', 'assembly': ad})
    c.tag('obj:assembly')
    for cn in ad['conns']:
        c.tag('conn:' + cn['func'])
    try:
        ass, ps, conn = gen.build_assembly(ad)
        size = ass.get_size()
        # same Gauss orders for every call: exact ones per panel
        for p in ps:
            p.nx, p.ny = orders(rng, p, True)
            if rng.random() < 0.4:
                p.Nxx, p.Nyy, p.Nxy = gen.load_triple(rng, float(10 ** rng.uniform(0, 5)))
                c.tag('ref_loads')
        # 40%: the linear stiffness comes from a twin assembly; the first call on the assembly under test is then a tangent or an
        # internal force at a deformed state
        fresh = bool(rng.random() < 0.4)
        c.tag('order:fresh' if fresh else 'order:k0_first')
        if fresh:
            ass_k, ps_k, _ = gen.build_assembly(ad)
            for p, q in zip(ps, ps_k):
                q.nx, q.ny = p.nx, p.ny
            K0 = ass_k.calc_k0(silent=True).toarray()
        else:
            K0 = ass.calc_k0(silent=True).toarray()
    except Exception as e:
        return c.reject('%s building assembly: %s' % (type(e).__name__, str(e)[:100]))
    t = float(np.mean([sum(d['lam']['plyts']) for d in ad['panels']]))

    def fint(cv):
        c.hit('assembly.calc_fint')
        return np.asarray(ass.calc_fint(np.ascontiguousarray(cv), silent=True))

    def kT(cv):
        c.hit('assembly.calc_kT')
        return ass.calc_kT(c=np.ascontiguousarray(cv), silent=True).toarray()
    wmask = np.zeros(size, bool); wmask[2::3] = True
    if fresh:
        try:
            cprobe = rng.normal(size=size) * t
            cprobe[~wmask] *= 0.05
            first = str(rng.choice(['kT', 'fint']))
            c.tag('first:' + first)
            if first == 'kT':
                kT(cprobe)
            f_first = fint(cprobe)
        except Exception as e:
            return c.reject('%s in the first call on a fresh assembly: %s' % (type(e).__name__, str(e)[:100]))
    try:
        fint(np.zeros(size))
    except Exception as e:
        # the statement quantifies over all states of such assemblies: the undeformed state of a valid
        # assembly admits no legitimate refusal
        c.violate('assembly internal force can be evaluated at all', '%s: %s' % (type(e).__name__, str(e)[:120]))
        return c
    try:
        cvec, amp = judge_object(c, rng, fint, kT, K0, size, wmask, t, 'assembly: ', ndir=4, blocks=[(p.col_start, p.col_end) for p in ps])
    except Exception as e:
        return c.reject('%s in assembly fint/kT: %s' % (type(e).__name__, str(e)[:100]))
    if fresh:
        f_again = fint(cprobe)
        den = np.abs(f_again) + 1e-9 * np.abs(f_again).max() + 1e-300
        c.judge('assembly: fint asked on a fresh assembly (after a first tangent or as the first call) equals fint of the same state asked later',
                float((np.abs(f_first - f_again) / den).max()), 1e-12)
        Kl = ass.calc_k0(silent=True).toarray()
        sck = np.abs(K0) + 1e-9 * np.abs(K0).max() + 1e-300
        c.judge('assembly: k0 asked after tangent and force evaluations equals k0 of a twin assembly asked first', float((np.abs(Kl - K0) / sck).max()), 1e-12)
    # the connection forces are part of fint: fint(c) - sum of panel forces = k0_conn * c
    kc = ass.get_k0_conn().toarray()
    fsum = np.zeros(size)
    for p in ps:
        fsum += np.asarray(p.calc_fint(cvec, size=size, col0=p.col_start, silent=True))
    f = fint(cvec)
    den = np.abs(f) + np.abs(fsum) + np.abs(kc) @ np.abs(cvec)
    c.judge('assembly fint adds the connection forces k0_conn*c', float((np.abs(f - fsum - kc @ cvec) / (den + 1e-9 * den.max() + 1e-300)).max()), 1e-12)
    if rng.random() < 0.3:
        closed_path(c, rng, fint, size, wmask, t, amp, 'assembly: ')
    c.nontrivial = True
    return c
