"""C06 - frequency solver returns true eigenpairs of (K, M), positive, ascending.

Monitor: recording post-condition on compmech.analysis.freq (all bindings)
and observation of Panel.freq outputs; oracle O5."""
import numpy as np
import scipy.sparse as sp

from .. import gen, monitors
from ..core import Case
from ..oracles import eig

RES_TOL = 1e-8
VAL_TOL = 1e-7
EPS = 2.3e-16


def plan(tier):
    n = 320 if tier == 'quick' else 12000
    return dict(suite_monitor=True, n_cases=n, shards=16, min_nontrivial=n // 3, min_hits={'freq': n // 2}, min_tags={'src:panel_method': n // 40, 'src:assembly_free': n // 40, 'src:bay_free': n // 40, 'spec:spring_net': n // 20, 'spec:low': n // 20},
                watchdog_s=1500 if tier == 'quick' else 7200,
                rule='random SPD pairs (K, M) sharing a random set of null rows/cols, sizes 6..%d, spectra spread over '
                     'decades / clustered within 0.1 rad/s / omega~1, 1..25 requested eigenvalues, both solver switches, '
                     'sort on/off, reduced_dof on/off; plus Panel matrices through analysis.freq and Panel.freq; '
                     'non-trivial = call returned >=2 pairs; distinct = hash of generation parameters' % (150 if tier == 'quick' else 400),
                assumptions=['backward-error tolerance max(1e-8, 1e3*eps*cond) ; ascending is judged literally (no tolerance)'])


def setup(tier):
    import importlib
    FM = importlib.import_module('compmech.analysis.freq')
    monitors.install_recorder(FM, 'freq')


def resid(K, M, w, v):
    r = K @ v - (w * w) * (M @ v)
    nK = np.abs(K).sum(axis=1).max()
    nM = np.abs(M).sum(axis=1).max()
    nv = np.linalg.norm(v)
    if nv == 0:
        return float('inf')
    return float(np.linalg.norm(r) / ((nK + abs(w * w) * nM) * nv))


def judge(c, K, M, ev, vecs, label, sort, k_req, sparse):
    Kd, Md = eig.dense(K), eig.dense(M)
    n = Kd.shape[0]
    act = eig.active_set(Md)
    actK = eig.active_set(Kd)
    if act.size == 0 or actK.size == 0:
        c.reject('outside the domain: no active amplitudes')
        return None
    wK = np.linalg.eigvalsh(Kd[np.ix_(actK, actK)])
    wM = np.linalg.eigvalsh(Md[np.ix_(act, act)])
    # K must be positive definite on its active set; for M positive SEMI-definiteness is enough (both solution paths and the
    # reference factorise K, never M): mass matrices of 12+ terms are numerically singular although every column carries mass
    if wK.min() <= 1e-12 * wK.max() or wM.min() < -1e-10 * wM.max():
        c.reject('outside the domain: K not positive definite or M indefinite on the active amplitudes')
        return None
    cond = max(wK.max() / wK.min(), min(wM.max() / max(wM.min(), 1e-300), 1e4))
    c.info['cond'] = float(cond)
    ref, _ = eig.ref_freq(Kd, Md)
    null = np.setdiff1d(np.arange(n), act)
    ev = np.asarray(ev)
    npairs = min(len(ev), vecs.shape[1])
    c.expect(label + ' eigvecs rows', vecs.shape[0] == n, '%d != %d' % (vecs.shape[0], n))
    res_tol = max(RES_TOL, 1e3 * EPS * cond)
    nK_ = np.abs(Kd).sum(axis=1).max(); nM_ = np.abs(Md).sum(axis=1).max()
    fwd = np.zeros(npairs)      # first-order forward bound on omega: backward error x eigenvalue condition number / 2
    for i in range(npairs):
        w = complex(ev[i])
        vr_ = np.real(np.asarray(vecs[:, i]))
        w2 = (w * w).real          # omega^2 as the solver found it (negative for an imaginary omega)
        if abs(w) > 0 and vr_.any():
            kap = (nK_ + abs(w2) * nM_) * float(vr_ @ vr_) / (abs(w2) * abs(float(vr_ @ Md @ vr_)) + 1e-300)
            r_ = Kd @ vr_ - w2 * (Md @ vr_)
            be = float(np.linalg.norm(r_) / ((nK_ + abs(w2) * nM_) * np.linalg.norm(vr_)))
            fwd[i] = (2 * be + 100 * n * EPS) * kap / 2
        if fwd[i] >= 0.5:
            # a pair whose mode carries mass at round-off level only: omega^2 is numerically infinite and its sign is noise (the
            # dense path without sorting hands back the whole LAPACK spectrum, these pairs included); its residual is still judged
            c.tag('pair:numerically_infinite')
            v = np.asarray(vecs[:, i])
            c.judge(label + ' residual K v = w^2 M v', float(np.linalg.norm(Kd @ np.real(v) - w2 * (Md @ np.real(v))) / ((nK_ + abs(w2) * nM_) * (np.linalg.norm(v) + 1e-300))), res_tol, data={'i': i, 'w2': w2})
            if null.size:
                c.judge(label + ' zero on massless dofs', np.abs(v[null]).max(), 0.0)
            continue
        c.judge(label + ' frequency real', abs(w.imag), (1e-7 + fwd[i]) * abs(w) + 1e-300)      # fwd: backward error x condition number of this pair
        c.expect(label + ' frequency positive', w.real > 0, 'omega[%d]=%r' % (i, w))
        v = np.asarray(vecs[:, i])
        c.judge(label + ' residual K v = w^2 M v', resid(Kd, Md, w.real, v), res_tol, data={'i': i, 'w': w.real})
        if null.size:
            c.judge(label + ' zero on massless dofs', np.abs(v[null]).max(), 0.0)
    if sort and npairs >= 2:
        wr = np.real(ev[:npairs])
        d = np.diff(wr)
        bad = np.where(d < 0)[0]
        mech = None
        if bad.size:
            # defect model of the known finding: the sort key is round(omega, 1); a
            # decrease is "that finding" only if both neighbours share the rounded key
            same_bin = all(np.round(wr[j], 1) == np.round(wr[j + 1], 1) for j in bad)
            mech = 'freq-sort-by-rounded-key' if same_bin else None
        c.expect(label + ' ascending', bad.size == 0,
                 'omega[%d]=%.12g > omega[%d]=%.12g' % ((bad[0], wr[bad[0]], bad[0] + 1, wr[bad[0] + 1]) if bad.size else (0, 0, 0, 0)),
                 mechanism=mech)
    # lowest frequencies agree with the reference (as multisets)
    if sort or not sparse:
        nj = min(npairs, k_req, ref.size)
        if sparse or sort:
            got = np.sort(np.real(ev[:npairs]))[:nj] if not sparse else np.sort(np.real(ev[:nj]))
            # "to solver precision" for a value: the measured backward error of the returned pairs times their condition number
            vt = VAL_TOL + 10 * EPS * cond + (float(np.sort(fwd[:npairs])[:nj].max()) if nj and not sparse else float(fwd[:nj].max()) if nj else 0.)
            c.judge(label + ' lowest frequencies equal reference', (np.abs(got - ref[:nj]) / ref[:nj]).max() if nj else 0., vt,
                    data={'got': got[:6], 'ref': ref[:6]})
    return ref


def random_pair(rng, tier):
    nmax = 150 if tier == 'quick' else 400
    n = int(rng.integers(6, 40)) if rng.random() < 0.6 else int(rng.integers(6, nmax + 1))
    na = n if rng.random() < 0.35 else int(rng.integers(max(5, n // 3), n + 1))
    act = np.sort(rng.choice(n, na, replace=False))
    style = str(rng.choice(['spread', 'clustered', 'unit', 'repeated', 'wide', 'spring_net', 'low']))
    if style == 'spring_net':
        # lumped spring-mass network: stiffness columns of the unrestrained nodes sum to exactly zero
        Ka = eig.spring_net(rng, na)
        Ma = np.diag(rng.uniform(0.1, 10, na)) if rng.random() < 0.6 else eig.random_spd(rng, na, 10 ** rng.uniform(0.5, 2))
        us = float(2.0 ** rng.integers(-20, 21)) if rng.random() < 0.3 else 1.0
        K = sp.csr_matrix(eig.embed(Ka, n, act) * us)
        M = sp.csr_matrix(eig.embed(Ma, n, act) * us)
        return K, M, dict(src='random', n=n, n_active=na, spectrum=style, unit_scale=us), na
    Q, _ = np.linalg.qr(rng.normal(size=(na, na)))
    if style == 'spread':
        w2 = 10 ** rng.uniform(0, 6, na)
    elif style == 'wide':
        # a few low (bending-like) modes under a mass of high (membrane-like) ones: omega^2 spans up to 5e9, as for thin panels
        nlow = int(rng.integers(1, max(2, na // 3)))
        w2 = np.concatenate([10 ** rng.uniform(0, 2, nlow), 10 ** rng.uniform(7, 9.7, na - nlow)])
    elif style == 'clustered':
        base = rng.uniform(5, 500)
        w = base + np.cumsum(rng.uniform(0.001, 0.08, na))
        w2 = w ** 2
    elif style == 'unit':
        w2 = rng.uniform(0.3, 3.0, na) ** 2
    elif style == 'low':
        # heavy / soft systems: a few frequencies far below 1 rad/s (1e-3 .. 5e-2) under an ordinary spectrum
        nlow = int(rng.integers(1, max(2, na // 2)))
        w2 = np.concatenate([10 ** rng.uniform(-3, np.log10(0.05), nlow), 10 ** rng.uniform(0, 2, na - nlow)]) ** 2
    else:
        w = np.repeat(rng.uniform(1, 100, (na + 1) // 2), 2)[:na] * (1 + 1e-9 * rng.normal(size=na))
        w2 = w ** 2
    # M = L L^T random SPD, K = L Q diag(w2) Q^T L^T  => generalized eigenvalues exactly w2
    Ma = eig.random_spd(rng, na, 10 ** rng.uniform(0.5, 2 if style == 'wide' else 4))
    L = np.linalg.cholesky(Ma)
    Ka = L @ ((Q * w2) @ Q.T) @ L.T
    Ka = (Ka + Ka.T) / 2
    us = gen.unit_scale(rng)
    K = sp.csr_matrix(eig.embed(Ka, n, act) * us)
    M = sp.csr_matrix(eig.embed(Ma, n, act) * us)
    return K, M, dict(src='random', n=n, n_active=na, spectrum=style, unit_scale=us), na


def run_case(rng, tier, idx):
    from compmech.analysis import freq
    mode = 'random' if idx % 10 < 7 else ['panel_free', 'panel_method', 'assembly_free', 'bay_free'][(idx // 10 * 3 + idx % 10 - 7) % 4]
    sparse = bool(rng.random() < 0.5)
    sort = bool(rng.random() < 0.8)
    reduced = bool(rng.random() < 0.15)
    k = int(rng.integers(1, 26))
    if mode == 'random':
        K, M, desc, na = random_pair(rng, tier)
        if rng.random() < 0.93:
            k = min(k, max(1, na - 2))
        desc.update(k=k, sparse_solver=sparse, sort=sort, reduced_dof=reduced)
        c = Case(desc)
        c.tag('src:random', 'spec:' + desc['spectrum'], 'sparse' if sparse else 'dense', 'sort' if sort else 'nosort',
              'nullcols' if na < desc['n'] else 'full', 'reduced' if reduced else 'fulldof')
        K0, M0 = K.copy(), M.copy()
        monitors.drain('freq')
        try:
            freq(K, M, tol=0, sparse_solver=sparse, silent=True, sort=sort, reduced_dof=reduced, num_eigvalues=k)
        except Exception as e:
            if reduced and not sparse:
                c.tag('rejected:dense+reduced_dof')
            return c.reject('%s in freq(sparse=%s, reduced=%s, k%sn_active-2): %s'
                            % (type(e).__name__, sparse, reduced, '>' if k > na - 2 else '<=', str(e)[:60]))
        obs = monitors.drain('freq')
        c.hit('freq', len(obs))
        if not obs:
            c.violate('monitor', 'freq returned but the monitor saw no call')
            return c
        ev, vecs = obs[-1]['result']
        ref = judge(c, K0, M0, ev, vecs, 'freq', sort, k, sparse)
        if ref is None:
            return c
        c.nontrivial = min(len(ev), vecs.shape[1]) >= 2
        c.expect('inputs unchanged', (abs(K - K0).sum() == 0) and (abs(M - M0).sum() == 0))
        if sort:
            s = float(10 ** rng.uniform(-2, 2))
            try:
                ev2, v2 = freq(K, M * s, tol=0, sparse_solver=sparse, silent=True, sort=sort, reduced_dof=reduced, num_eigvalues=k)
                nj = min(len(ev), len(ev2), k)
                a = np.sort(np.real(ev[:nj])); b = np.sort(np.real(ev2[:nj]))
                c.judge('scaling: omega(s*M) = omega/sqrt(s)', (np.abs(b * np.sqrt(s) - a) / a).max() if nj else 0.,
                        VAL_TOL + 10 * EPS * c.info['cond'])
            except Exception as e:
                c.info['scaling_rejected'] = repr(e)[:80]
            try:
                ev3, v3 = freq(K, M, tol=0, sparse_solver=not sparse, silent=True, sort=sort, num_eigvalues=k)
                nj = min(len(ev), len(ev3), k)
                a = np.sort(np.real(ev))[:nj] if not sparse else np.sort(np.real(ev[:nj]))
                b = np.sort(np.real(ev3))[:nj] if sparse else np.sort(np.real(ev3[:nj]))
                c.judge('sparse and dense paths agree', (np.abs(b - a) / a).max() if nj else 0., VAL_TOL + 10 * EPS * c.info['cond'])
                judge(c, K0, M0, ev3, v3, 'freq(other path)', sort, k, not sparse)
            except Exception as e:
                c.info['otherpath_rejected'] = repr(e)[:80]
            monitors.drain('freq')
        return c
    if mode in ('assembly_free', 'bay_free'):
        which = mode.split('_')[0]
        k = int(rng.integers(1, 8))
        try:
            K, M, desc = gen.structure_matrices(rng, which, 'kM')
        except Exception as e:
            return Case({'src': which}).reject('%s building %s: %s' % (type(e).__name__, which, str(e)[:100]))
        k = min(k, max(1, len(gen.active_dofs(M)) - 2))
        us = gen.unit_scale(rng)
        K = K * us; M = M * us
        desc.update(k=k, sparse_solver=sparse, sort=sort, unit_scale=us)
        c = Case(desc)
        c.tag('src:' + mode, 'sparse' if sparse else 'dense', 'sort' if sort else 'nosort')
        monitors.drain('freq')
        try:
            freq(K, M, tol=0, sparse_solver=sparse, silent=True, sort=sort, num_eigvalues=k)
        except Exception as e:
            return c.reject('%s in freq on %s matrices: %s' % (type(e).__name__, which, str(e)[:100]))
        obs = monitors.drain('freq')
        c.hit('freq', len(obs))
        ev, vecs = obs[-1]['result']
        ref = judge(c, K, M, ev, vecs, mode, sort, k, sparse)
        if ref is not None:
            c.nontrivial = min(len(ev), vecs.shape[1]) >= 2
        return c
    # package matrices
    fl = gen.flags(rng, style=str(rng.choice(['ss', 'clamped', 'binary', 'mixed'])))
    d = gen.panel_desc(rng, model=str(rng.choice(['plate', 'cpanel', 'plate_w', 'kpanel'])), mmax=7, sub=False, place=False, fl=fl)
    d['m'] = max(d['m'], 6); d['n'] = max(d['n'], 6)      # enough free terms behind clamped edges
    if mode == 'panel_method' and rng.random() < 0.5:
        # many terms and a cantilever-like restraint pattern: mass columns then span many orders of magnitude
        d['m'] = int(rng.integers(10, 15)); d['n'] = int(rng.integers(10, 15))
        sparse = False         # the dense branch is the one that sees the whole spectrum and all mass columns
        if rng.random() < 0.6:
            # cantilever: edge x = 0 clamped, the three other edges free
            fl = gen.flags(rng, 'free')
            for f in 'uvw':
                fl[f + '1tx'] = 0.0; fl[f + '1rx'] = 0.0
            fl['_style'] = 'cantilever'
            d['flags'] = fl
    p = gen.build_panel(d)
    k = int(rng.integers(1, 8))
    desc = dict(src=mode, panel=d, k=k, sparse_solver=sparse, sort=sort)
    c = Case(desc)
    c.tag('src:' + mode, 'model:' + d['model'], 'sparse' if sparse else 'dense', 'sort' if sort else 'nosort')
    try:
        K = p.calc_k0(silent=True)
        M = p.calc_kM(silent=True)
        na = len(gen.active_dofs(M))
        k = min(k, max(1, na - 2))
        if mode == 'panel_free':
            monitors.drain('freq')
            freq(K, M, tol=0, sparse_solver=sparse, silent=True, sort=sort, num_eigvalues=k)
            obs = monitors.drain('freq')
            c.hit('freq', len(obs))
            ev, vecs = obs[-1]['result']
        else:
            p.num_eigvalues = k
            atype = 4
            if rng.random() < 0.5:
                # pre-stressed frequencies (atype 3: k0 + kG0) under a sub-critical pre-load: still a definite pencil
                N = np.array([-1.0, float(rng.choice([0.0, -0.5, 0.4])), float(rng.choice([0.0, 0.3]))])
                shear_only = bool(rng.random() < 0.3)
                if shear_only:
                    N = np.array([0.0, 0.0, float(rng.choice([-1.0, 1.0]))])       # pure shear pre-load
                unset = [bool(v == 0.0 and rng.random() < 0.5) for v in N]       # zero resultants assigned as 0.0 or left at None

                def assign(vals):
                    p.Nxx, p.Nyy, p.Nxy = [None if u else float(v) for u, v in zip(unset, vals)]
                assign(N)
                lam_pos = eig.ref_buckling(K, p.calc_kG0(silent=True))[0]
                if lam_pos.size:
                    N = N * float(rng.uniform(0.1, 0.8)) * float(lam_pos.min())
                    assign(N)
                    atype = 3
                    if shear_only:
                        c.tag('preload:pure_shear')
                    c.desc['preload'] = [float(x) for x in N]
            if atype == 4:
                # plain frequencies: whatever an earlier buckling / static / flutter run left on the object is no part of the pencil
                for k_ in gen.leftovers(rng, p):
                    c.tag('left:' + k_)
            c.tag('atype:%d' % atype)
            p.freq(atype=atype, silent=True, sparse_solver=sparse, sort=sort)
            c.hit('Panel.freq')
            ev, vecs = p.eigvals, p.eigvecs
            K, M = (p.k0 if atype == 4 else p.k0 + p.kG0), p.kM
    except Exception as e:
        return c.reject('%s in %s: %s' % (type(e).__name__, mode, str(e)[:100]))
    ref = judge(c, K, M, ev, vecs, mode, sort, k, sparse)
    if ref is not None:
        c.nontrivial = min(len(ev), vecs.shape[1]) >= 2
    # the same Panel object after a redefinition (density, a dimension, an edge flag), analysed again: the pairs returned now are
    # eigenpairs of the stiffness and mass matrices of the panel as defined now (built here on a fresh object)
    if ref is not None and mode == 'panel_method' and c.desc.get('preload') is None and rng.random() < 0.5:
        c.tag('clause:redefined')
        d2 = dict(d); d2['flags'] = dict(d['flags'])
        what = str(rng.choice(['mu', 'mu', 'a', 'flag']))
        if what == 'mu':
            d2['mu'] = d['mu'] * float(10 ** rng.uniform(-1, 1))
            p.mu = d2['mu']
        elif what == 'a':
            d2['a'] = d['a'] * float(rng.uniform(0.5, 2))
            p.a = d2['a']
        else:
            k_ = 'w%s%sx' % (str(rng.choice(['1', '2'])), str(rng.choice(['t', 'r'])))
            d2['flags'][k_] = 0.0 if d['flags'].get(k_, 1.0) else 1.0
            setattr(p, k_, d2['flags'][k_])
        c.desc['redefinition'] = what
        try:
            q = gen.build_panel(d2)
            K2 = q.calc_k0(silent=True); M2 = q.calc_kM(silent=True)
            p.freq(atype=4, silent=True, sparse_solver=sparse, sort=sort)
            judge(c, K2, M2, p.eigvals, p.eigvecs, 'panel_method after redefinition (%s):' % what, sort, k, sparse)
        except Exception as e:
            c.info['redefinition_rejected'] = '%s: %s' % (type(e).__name__, str(e)[:100])
    return c
