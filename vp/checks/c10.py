"""C10 - Bardell functions, integral tables and quadrature tables are exact.

Monitor: ctypes probes on a shared object compiled at check time from the
working tree's compmech/lib/src/*.c; oracle O3 (exact rational algebra)."""
import ctypes
import os
from fractions import Fraction as Fr

import numpy as np

from .. import build
from ..core import Case
from ..oracles import bardell_exact as B

D = ctypes.c_double
I = ctypes.c_int
EPS = 2.220446049250313e-16
_lib = None

FAM = list(B.FAMILIES.items())
FAMC = list(B.FAMILIES_C0C1.items())

# unit enumeration -------------------------------------------------------------
UNITS = []
for i in range(30):
    UNITS.append(('func', i))
for fam in range(6):
    for i in range(30):
        UNITS.append(('full', fam, i))
for fam in range(6):
    for i in range(30):
        UNITS.append(('sub', fam, i))
for fam in range(5):
    for i in range(30):
        UNITS.append(('c0c1', fam, i))
for n in range(2, 65):
    UNITS.append(('gauss', n))
for k in range(40):
    UNITS.append(('grid', k))


def plan(tier):
    return dict(sanitize={'ctypes_lib': True, 'n_cases': len(UNITS)}, n_cases=len(UNITS), shards=16, min_nontrivial=len(UNITS) - 5,
                watchdog_s=1800 if tier == 'quick' else 7200, exhaustive=True,
                min_tags={'unit:func': 30, 'unit:full': 180, 'unit:sub': 180, 'unit:c0c1': 150, 'unit:gauss': 63, 'unit:grid': 40},
                rule='work units: 30 function indices x 64 rational abscissae x flag sets; the 6 full-interval families '
                     'EXHAUSTIVELY over (i,j) in 0..29^2 with unit, generic-real and 0/1 flag patterns (both argument orders arise '
                     'because every ordered pair is enumerated); 6 sub-interval families over all pairs at %d rational (xi1,xi2) '
                     'each incl. degenerate/tiny/edge intervals + additivity; 5 mapped-argument families over all pairs at %d rational '
                     '(c0,c1); Gauss-Legendre n=2..64 (moments in exact arithmetic on the returned doubles, and numpy leggauss); '
                     '40 random trapezoid/Simpson grids. exhaustive=true refers to the full-interval tables and the index/order '
                     'enumeration; sub-interval and mapped tables are sampled in their continuous arguments. '
                     'non-trivial = unit made >=1 judgement; distinct = unit id' % ((6, 4) if tier == 'quick' else (40, 30)),
                assumptions=['tables carry 15 significant digits: relative tolerance 2e-14 on full-interval entries, '
                             '(1e-14 + 64 eps) x sum|coef||xi|^k on polynomial evaluations',
                             'mapped-argument reading: int_-1^1 f_i^(di)(xi) f_j^(dj)(c0+c1 xi) dxi, derivative w.r.t. the mapped argument (no chain factor), confirmed by probing'])


def lib():
    global _lib
    if _lib is None:
        L = ctypes.CDLL(os.environ.get('VERIF_SAN_LIB') or build.build_ctypes_lib())
        for nm in B.FAMILIES:
            fn = getattr(L, 'integral_' + nm); fn.restype = D; fn.argtypes = [I, I] + [D] * 8
            fn = getattr(L, 'integral_' + nm + '_12'); fn.restype = D; fn.argtypes = [D, D, I, I] + [D] * 8
        for nm in B.FAMILIES_C0C1:
            fn = getattr(L, 'integral_' + nm + '_c0c1'); fn.restype = D; fn.argtypes = [D, D, I, I] + [D] * 8
        for nm in ('calc_f', 'calc_fxi', 'calc_fxixi'):
            fn = getattr(L, nm); fn.restype = D; fn.argtypes = [I, D] + [D] * 4
        for nm in ('calc_vec_f', 'calc_vec_fxi', 'calc_vec_fxixi'):
            fn = getattr(L, nm); fn.restype = None; fn.argtypes = [ctypes.POINTER(D), D] + [D] * 4
        L.leggauss_quad.restype = None
        L.leggauss_quad.argtypes = [I, ctypes.POINTER(D), ctypes.POINTER(D)]
        _lib = L
    return _lib


def setup(tier):
    lib()


def abscissae(rng, n=64):
    xs = [Fr(-1), Fr(1), Fr(0), Fr(1, 2), Fr(-1, 2), Fr(999, 1000), Fr(-999, 1000), Fr(1, 10 ** 6)]
    for k in range(1, 17):
        xs.append(Fr(int(round(np.cos((2 * k - 1) * np.pi / 32) * 10 ** 6)), 10 ** 6))
    while len(xs) < n:
        xs.append(Fr(int(rng.integers(-10 ** 6, 10 ** 6 + 1)), 10 ** 6))
    return xs


def flagsets(rng):
    fs = [(1., 1., 1., 1.), (0., 0., 0., 0.), (1., 0., 1., 0.), (0., 1., 0., 1.), (1., 0., 0., 1.)]
    fs.append(tuple(float(x) for x in rng.uniform(0.2, 1.8, 4)))
    fs.append(tuple(float(x) for x in rng.uniform(-2, 2, 4)))
    return fs


def unit_func(c, rng, i, tier):
    L = lib()
    xs = abscissae(rng)
    buf = (D * 30)()
    for d, (nm, vnm) in enumerate((('calc_f', 'calc_vec_f'), ('calc_fxi', 'calc_vec_fxi'), ('calc_fxixi', 'calc_vec_fxixi'))):
        p = B.fd(i, d)
        for x in xs:
            xf = float(x)
            ex = float(B.ev(p, x))
            sc = B.abs_ev(p, x)
            tol = (1e-14 + 64 * EPS) * sc
            for fl in flagsets(rng):
                g = fl[i] if i < 4 else 1.0
                got = getattr(L, nm)(i, xf, *fl)
                c.judge('%s value' % nm, abs(got - g * ex), abs(g) * tol + 1e-300 if sc > 0 else 0.0,
                        data={'i': i, 'xi': xf, 'got': got, 'exact': g * ex})
                getattr(L, vnm)(buf, xf, *fl)
                c.judge('%s value' % vnm, abs(buf[i] - g * ex), abs(g) * tol + 1e-300 if sc > 0 else 0.0,
                        data={'i': i, 'xi': xf, 'got': buf[i], 'exact': g * ex})


def flag_patterns(rng):
    pats = [((1.,) * 4, (1.,) * 4)]
    pats.append((tuple(float(x) for x in rng.uniform(0.2, 1.8, 4)), tuple(float(x) for x in rng.uniform(0.2, 1.8, 4))))
    for _ in range(4):
        pats.append((tuple(float(x) for x in rng.integers(0, 2, 4)), tuple(float(x) for x in rng.integers(0, 2, 4))))
    return pats


def unit_full(c, rng, fam, i, tier):
    L = lib()
    nm, (di, dj) = FAM[fam]
    fn = getattr(L, 'integral_' + nm)
    pats = flag_patterns(rng)
    for j in range(30):
        ex = B.integral_full(i, j, di, dj)
        exf = float(ex)
        for fx, fy in pats:
            g = (fx[i] if i < 4 else 1.0) * (fy[j] if j < 4 else 1.0)
            got = fn(i, j, *fx, *fy)
            if ex == 0 or g == 0:
                c.expect('integral_%s exact zero' % nm, got == 0.0, 'i=%d j=%d got %r' % (i, j, got))
            else:
                c.judge('integral_%s entry' % nm, abs(got - g * exf), 2e-14 * abs(g * exf),
                        data={'i': i, 'j': j, 'got': got, 'exact': g * exf})


def interval_pairs(rng, n):
    ps = [(Fr(-1), Fr(1)), (Fr(0), Fr(0)), (Fr(-1), Fr(-999, 1000)), (Fr(999, 1000), Fr(1)), (Fr(-1, 1000), Fr(1, 1000)), (Fr(-1, 3), Fr(1, 7))]
    while len(ps) < n:
        a, b = sorted(int(x) for x in rng.integers(-10 ** 4, 10 ** 4 + 1, 2))
        ps.append((Fr(a, 10 ** 4), Fr(b, 10 ** 4)))
    return ps[:n]


def unit_sub(c, rng, fam, i, tier):
    L = lib()
    nm, (di, dj) = FAM[fam]
    fn = getattr(L, 'integral_' + nm + '_12')
    fn_full = getattr(L, 'integral_' + nm)
    npairs = 6 if tier == 'quick' else 40
    pairs = interval_pairs(rng, npairs)
    fx = tuple(float(x) for x in rng.uniform(0.2, 1.8, 4))
    fy = tuple(float(x) for x in rng.uniform(0.2, 1.8, 4))
    dom = 0
    for j in range(30):
        g = (fx[i] if i < 4 else 1.0) * (fy[j] if j < 4 else 1.0)
        for (x1, x2) in pairs:
            ex, sc = B.integral_sub(i, j, di, dj, x1, x2)
            got = fn(float(x1), float(x2), i, j, *fx, *fy)
            tol = (1e-14 + 64 * EPS) * sc * abs(g)
            c.judge('integral_%s_12 value' % nm, abs(got - g * float(ex)), tol if sc > 0 else 0.0,
                    data={'i': i, 'j': j, 'xi1': float(x1), 'xi2': float(x2), 'got': got, 'exact': g * float(ex)})
            if abs(float(ex)) > 0.05 * sc:
                dom += 1
        # I(-1,1) equals the full-interval table
        a = fn(-1.0, 1.0, i, j, *fx, *fy)
        b = fn_full(i, j, *fx, *fy)
        exf = abs(float(B.integral_full(i, j, di, dj)) * g)
        _, sc = B.integral_sub(i, j, di, dj, Fr(-1), Fr(1))
        c.judge('integral_%s_12(-1,1) equals full table' % nm, abs(a - b), 2e-14 * exf + (1e-14 + 64 * EPS) * sc * abs(g))
        # additivity on a random split
        x1, x3 = pairs[-1]
        x2 = (x1 + x3) / 2
        s = fn(float(x1), float(x2), i, j, *fx, *fy) + fn(float(x2), float(x3), i, j, *fx, *fy)
        t = fn(float(x1), float(x3), i, j, *fx, *fy)
        _, sc1 = B.integral_sub(i, j, di, dj, x1, x3)
        _, sc2 = B.integral_sub(i, j, di, dj, x2, x2)
        c.judge('integral_%s_12 additivity' % nm, abs(s - t), (1e-14 + 64 * EPS) * (sc1 + sc2) * abs(g) + 1e-300)
    c.info['well_conditioned_samples'] = dom


def c0c1_pairs(rng, n):
    ps = [(Fr(0), Fr(1)), (Fr(1, 5), Fr(3, 10)), (Fr(-1, 2), Fr(1, 2)), (Fr(0), Fr(0)), (Fr(3, 4), Fr(-1, 4)), (Fr(0), Fr(-1))]
    while len(ps) < n:
        c0 = Fr(int(rng.integers(-10 ** 4, 10 ** 4 + 1)), 10 ** 4)
        room = 1 - abs(c0)
        c1 = room * Fr(int(rng.integers(-10 ** 4, 10 ** 4 + 1)), 10 ** 4)
        ps.append((c0, c1))
    return ps[:n]


def unit_c0c1(c, rng, fam, i, tier):
    L = lib()
    nm, (di, dj) = FAMC[fam]
    fn = getattr(L, 'integral_' + nm + '_c0c1')
    npairs = 4 if tier == 'quick' else 30
    pairs = c0c1_pairs(rng, npairs)
    fx = tuple(float(x) for x in rng.uniform(0.2, 1.8, 4))
    fy = tuple(float(x) for x in rng.uniform(0.2, 1.8, 4))
    for j in range(30):
        g = (fx[i] if i < 4 else 1.0) * (fy[j] if j < 4 else 1.0)
        for (c0, c1) in pairs:
            ex, sc = B.integral_c0c1(i, j, di, dj, c0, c1)
            got = fn(float(c0), float(c1), i, j, *fx, *fy)
            tol = (1e-14 + 64 * EPS) * sc * abs(g)
            c.judge('integral_%s_c0c1 value' % nm, abs(got - g * float(ex)), tol if sc > 0 else 0.0,
                    data={'i': i, 'j': j, 'c0': float(c0), 'c1': float(c1), 'got': got, 'exact': g * float(ex)})


def unit_gauss(c, rng, n, tier):
    L = lib()
    pts = (D * n)()
    wts = (D * n)()
    L.leggauss_quad(n, pts, wts)
    x = np.array(pts[:])
    w = np.array(wts[:])
    xr, wr = np.polynomial.legendre.leggauss(n)
    o = np.argsort(x)
    c.judge('leggauss nodes vs numpy', np.abs(x[o] - xr).max(), 1e-14)
    c.judge('leggauss weights vs numpy', np.abs(w[o] - wr).max(), 1e-14)
    c.expect('leggauss weights positive, nodes inside', bool(np.all(w > 0) and np.all(np.abs(x) < 1)))
    # defining property in exact arithmetic on the returned doubles
    xf = [Fr(float(v)) for v in x]
    wf = [Fr(float(v)) for v in w]
    pw = [Fr(1)] * n
    for k in range(0, 2 * n):
        s = sum(a * b for a, b in zip(wf, pw))
        ex = Fr(2, k + 1) if k % 2 == 0 else Fr(0)
        bound = sum(abs(float(a)) * abs(float(b)) for a, b in zip(wf, pw)) * (n + 8) * 1e-15
        c.judge('leggauss moment exactness', abs(float(s - ex)), bound, data={'n': n, 'k': k})
        pw = [a * b for a, b in zip(pw, xf)]


def unit_grid(c, rng, k, tier):
    from compmech.integrate.integrate import trapz2d_points, simps2d_points
    xmin = float(rng.uniform(-5, 5)); xmax = xmin + float(10 ** rng.uniform(-2, 1.5))
    ymin = float(rng.uniform(-5, 5)); ymax = ymin + float(10 ** rng.uniform(-2, 1.5))
    nx = int(rng.integers(2, 201)); ny = int(rng.integers(2, 201))
    if k < 4:
        nx, ny = [(2, 2), (2, 3), (3, 2), (200, 199)][k]
    c.desc.update(xmin=xmin, xmax=xmax, ymin=ymin, ymax=ymax, nx=nx, ny=ny)
    area = (xmax - xmin) * (ymax - ymin)

    def mom(a, b, p):
        return (b ** (p + 1) - a ** (p + 1)) / (p + 1)
    for nm, fn, deg in (('trapz2d', trapz2d_points, 1), ('simps2d', simps2d_points, 3)):
        xs, ys, al, be = [np.asarray(v) for v in fn(xmin, xmax, nx, ymin, ymax, ny)]
        enx, eny = nx, ny
        if nm == 'simps2d':
            enx = nx + (nx % 2); eny = ny + (ny % 2)
            c.expect('simps2d point count (odd n uses n+1 intervals)', xs.size == (enx + 1) * (eny + 1), '%d' % xs.size)
        else:
            c.expect('trapz2d point count', xs.size == nx * ny)
        c.expect(nm + ' betas all 1', bool(np.all(be == 1.0)))
        c.judge(nm + ' weights sum to area', abs(al.sum() - area), 1e-12 * area)
        c.expect(nm + ' points inside domain', bool(xs.min() >= xmin - 1e-12 and xs.max() <= xmax + 1e-12 and ys.min() >= ymin - 1e-12 and ys.max() <= ymax + 1e-12))
        for px in range(deg + 1):
            for py in range(deg + 1):
                got = float((al * xs ** px * ys ** py).sum())
                ex = mom(xmin, xmax, px) * mom(ymin, ymax, py)
                sc = float((np.abs(al) * np.abs(xs) ** px * np.abs(ys) ** py).sum())
                c.judge(nm + ' exact for monomials up to degree %d' % deg, abs(got - ex), 1e-11 * sc + 1e-300, data={'px': px, 'py': py})


def run_case(rng, tier, idx):
    u = UNITS[idx]
    c = Case({'unit': list(u)})
    c.key = repr(u)
    c.tag('unit:' + u[0])
    if u[0] == 'func':
        unit_func(c, rng, u[1], tier)
    elif u[0] == 'full':
        unit_full(c, rng, u[1], u[2], tier)
    elif u[0] == 'sub':
        unit_sub(c, rng, u[1], u[2], tier)
    elif u[0] == 'c0c1':
        unit_c0c1(c, rng, u[1], u[2], tier)
    elif u[0] == 'gauss':
        unit_gauss(c, rng, u[1], tier)
    else:
        unit_grid(c, rng, u[1], tier)
    c.nontrivial = c.checks > 0
    return c
