"""C07 - static analysis: the load vector is the loads' virtual work and
K c = f is solved.

Monitors: post-conditions (recorders) on compmech.sparse.solve and
compmech.analysis.static (all bindings, so Panel.static / Analysis.static are
observed too); calc_fext of panels, assemblies and stiffened bays judged by O6
(virtual work through the displacement kernel, a different kernel from the one
that builds the load vector)."""
import importlib

import numpy as np
import scipy.sparse as sp

from .. import gen, monitors
from ..core import Case
from ..oracles import eig

TOL = 1e-11


def plan(tier):
    n = 400 if tier == 'quick' else 8000
    return dict(suite_monitor=True, n_cases=n, shards=16, min_nontrivial=n // 3,
                min_hits={'solve': n // 6, 'Panel.static': n // 40},
                min_tags={'obj:panel': n // 6, 'obj:assembly': n // 12, 'obj:bay': n // 12, 'obj:matrix': n // 10,
                          'force:skin': n // 30, 'force:flange': n // 40, 'force:base': n // 60, 'model:plate_w': n // 60, 'model:kpanel': n // 60},
                watchdog_s=1800 if tier == 'quick' else 10000,
                rule='0..12 point forces at interior / edge / corner positions with arbitrary components, constant and incrementable, load '
                     'factors in [0,2]; single panels of every model; assemblies of 2..5 panels of unequal m,n in shuffled order; bays with 0..3 '
                     'stiffeners of the three kinds and forces on skin, base and flange; random SPD systems with null rows/cols through '
                     'sparse.solve and analysis.static; non-trivial = at least 2 forces or a random system; distinct = hash of the description',
                assumptions=['virtual-work tolerance 1e-11 of sum|f||basis||c|; residual tolerance 1e-9 backward error (x cond for ill-conditioned package matrices)'])


def setup(tier):
    import compmech.sparse as S
    monitors.install_recorder(S, 'solve')
    ST = importlib.import_module('compmech.analysis.static')
    monitors.install_recorder(ST, 'static', name='static_fn')


def gen_forces(rng, a, b, nmax=6):
    n = int(rng.integers(0, nmax + 1))
    out = []
    # force magnitudes: usually 0.1 .. 1000, sometimes tiny or huge (another unit system): nothing in the chain may depend on
    # the absolute size of the loads
    big = float(10 ** rng.uniform(-13, 8)) if rng.random() < 0.25 else 1.0
    for _ in range(n):
        k = rng.random()
        x = float(rng.uniform(0, a)) if k < 0.7 else float(rng.choice([0., a]))
        y = float(rng.uniform(0, b)) if rng.random() < 0.7 else float(rng.choice([0., b]))
        f = [float(v) for v in rng.normal(size=3) * 10 ** rng.uniform(-1, 3) * big]
        if rng.random() < 0.2:
            f[int(rng.integers(0, 3))] = 0.0
        out.append([x, y] + f)
    return out


def work(uvw_fn, cvec, forces, scale_fn=None):
    """sum_k f_k . (u,v,w)(x_k,y_k) with displacements from the package's uvw"""
    tot = 0.0
    sc = 0.0
    for x, y, fx, fy, fz in forces:
        out = uvw_fn(cvec, np.array([x]), np.array([y]))
        u, v, w = [float(np.asarray(o).ravel()[0]) for o in out[:3]]
        tot += fx * u + fy * v + fz * w
        sc += abs(fx * u) + abs(fy * v) + abs(fz * w)
    return tot, sc


def judge_work(c, label, fext, cs, uvw_fn, forces_cte, forces_inc, inc, absfn=None):
    fext = np.asarray(fext, dtype=float)
    for cv in cs:
        w0, s0 = work(uvw_fn, cv, forces_cte)
        w1, s1 = work(uvw_fn, cv, forces_inc)
        ref = w0 + inc * w1
        got = float(fext @ cv)
        sc = s0 + abs(inc) * s1 + float(np.abs(fext) @ np.abs(cv))
        c.judge(label + ' fext.c equals the virtual work of the forces on the reported displacements', abs(got - ref), TOL * sc + 1e-300,
                data={'got': got, 'ref': ref})


def judge_solve_events(c, label):
    """residual / null dofs of every observed sparse.solve call"""
    n = 0
    for ev in monitors.drain('solve'):
        a, b = ev['args'][0], ev['args'][1]
        x = np.asarray(ev['result'], dtype=float)
        A = eig.dense(a)
        b = np.asarray(b, dtype=float)
        act = np.where(np.abs(A).sum(axis=0) > 0)[0]
        if act.size == 0:
            continue
        null = np.setdiff1d(np.arange(A.shape[0]), act)
        Aa = A[np.ix_(act, act)]
        cond = np.linalg.cond(Aa)
        if not np.isfinite(cond) or cond > 1e13:
            c.info['singular_system_skipped'] = c.info.get('singular_system_skipped', 0) + 1
            continue
        r = Aa @ x[act] - b[act]
        be = np.linalg.norm(r) / (np.abs(Aa).sum(axis=1).max() * np.linalg.norm(x[act]) + np.linalg.norm(b[act]) + 1e-300)
        c.judge(label + ' K c = f on the active amplitudes', be, 1e-10)
        if null.size:
            c.judge(label + ' zero on amplitudes without stiffness', float(np.abs(x[null]).max()), 0.0)
        n += 1
        c.hit('solve')
    return n


def run_case(rng, tier, idx):
    kind = str(rng.choice(['panel', 'panel', 'assembly', 'bay', 'matrix']))
    monitors.drain('solve'); monitors.drain('static_fn')
    if kind == 'panel':
        return case_panel(rng, tier)
    if kind == 'assembly':
        return case_assembly(rng, tier)
    if kind == 'bay':
        return case_bay(rng, tier)
    return case_matrix(rng, tier)


def case_matrix(rng, tier):
    from compmech.sparse import solve
    from compmech.analysis import static
    n = int(rng.integers(5, 120))
    na = n if rng.random() < 0.3 else int(rng.integers(3, n + 1))
    act = np.sort(rng.choice(n, na, replace=False))
    Ka = eig.random_spd(rng, na, 10 ** rng.uniform(1, 8), band=int(rng.integers(1, 5)) if rng.random() < 0.4 else None)
    us = gen.unit_scale(rng)
    net = bool(rng.random() < 0.25)
    if net:
        # lumped spring network: columns of the nodes without a ground spring sum to exactly zero
        Ka = eig.spring_net(rng, na)
        us = float(2.0 ** rng.integers(-20, 21)) if rng.random() < 0.3 else 1.0
    K = sp.csr_matrix(eig.embed(Ka, n, act) * us)
    fs = float(10 ** rng.uniform(-14, 8)) if rng.random() < 0.4 else 1.0      # load magnitude independent of the stiffness magnitude
    f1 = rng.normal(size=n) * fs; f2 = rng.normal(size=n) * fs
    c = Case({'obj': 'matrix', 'n': n, 'n_active': na, 'unit_scale': us, 'load_scale': fs})
    c.tag('obj:matrix', 'nullcols' if na < n else 'full', 'k:spring_net' if net else 'k:random_spd')
    K0 = K.copy(); f1b = f1.copy()
    x1 = solve(K, f1, silent=True)
    x2 = solve(K, f2, silent=True)
    al, be = [float(v) for v in rng.normal(size=2)]
    x3 = solve(K, al * f1 + be * f2, silent=True)
    incs, cs = static(K, f1, silent=True)
    c.expect('inputs unchanged', abs(K - K0).sum() == 0 and np.array_equal(f1, f1b))
    judge_solve_events(c, 'solve:')
    sc = np.abs(al) * np.abs(x1) + np.abs(be) * np.abs(x2)
    c.judge('solution depends linearly on the loads', float((np.abs(x3 - al * x1 - be * x2) / (sc + 1e-9 * sc.max() + 1e-300)).max()),
            1e-8 * max(1.0, np.linalg.cond(Ka) * 1e-7))
    ev = monitors.drain('static_fn')
    c.hit('static_fn', len(ev))
    c.expect('analysis.static reports load factor 1 and the solution', incs == [1.0] and len(cs) == 1 and np.array_equal(cs[0], x1))
    return c


def case_panel(rng, tier):
    model = str(rng.choice(['plate', 'cpanel', 'kpanel', 'plate_w']))
    fl = gen.flags(rng, style=str(rng.choice(['ss', 'clamped', 'binary', 'mixed', 'real', 'free'])))
    d = gen.panel_desc(rng, model=model, mmax=6, sub=False, fl=fl)
    forces_cte = gen_forces(rng, d['a'], d['b'])
    forces_inc = gen_forces(rng, d['a'], d['b'])
    inc = float(rng.uniform(0, 2))
    c = Case({'obj': 'panel', 'panel': d, 'forces': forces_cte, 'forces_inc': forces_inc, 'inc': inc})
    c.tag('obj:panel', 'model:' + model)
    c.nontrivial = len(forces_cte) + len(forces_inc) >= 2
    num = 1 if model == 'plate_w' else 3
    own = num * d['m'] * d['n']
    col0 = d['row0']

    def mk(fc, fi):
        p = gen.build_panel(d)
        for f in fc:
            p.add_force(*f, cte=True)
        for f in fi:
            p.add_force(*f, cte=False)
        return p
    p = mk(forces_cte, forces_inc)
    try:
        fext = p.calc_fext(inc=inc, size=d['size'], col0=col0, silent=True)
    except Exception as e:
        if forces_cte or forces_inc:
            c.tag('rejected:calc_fext')
        return c.reject('%s in Panel.calc_fext (%s): %s' % (type(e).__name__, model, str(e)[:80]))
    c.hit('Panel.calc_fext')
    fext = np.asarray(fext, dtype=float)
    c.expect('fext has the requested global size and is zero outside the panel range',
             fext.shape == (d['size'],) and not fext[:col0].any() and not fext[col0 + own:].any())
    p.calc_k0(silent=True)
    cs = [rng.normal(size=own) for _ in range(6)]
    if model == 'kpanel' or model == 'plate_w':
        from ..oracles import series

        def uvw_fn(cv, xs, ys):
            U = series.disp_U(p, 2 * xs / p.a - 1., 2 * ys / p.b - 1., p.a, p.b, num=num)
            return [U[k] @ cv for k in range(3)]
        if model == 'kpanel':
            uvw_fn = lambda cv, xs, ys: p.uvw(cv, xs=xs, ys=ys)
    else:
        uvw_fn = lambda cv, xs, ys: p.uvw(cv, xs=xs, ys=ys)
    judge_work(c, 'panel:', fext[col0:col0 + own], cs, uvw_fn, forces_cte, forces_inc, inc)
    # incrementable forces scaled by the load factor, constant ones not (three more executions)
    f0 = np.asarray(p.calc_fext(inc=0., size=d['size'], col0=col0, silent=True))
    f1 = np.asarray(p.calc_fext(inc=1., size=d['size'], col0=col0, silent=True))
    fc = np.asarray(mk(forces_cte, []).calc_fext(inc=inc, size=d['size'], col0=col0, silent=True))
    sc = np.abs(f0) + np.abs(f1) + 1e-9 * (np.abs(f0) + np.abs(f1)).max() + 1e-300
    c.judge('fext(inc) = fext(0) + inc*(fext(1)-fext(0))', float((np.abs(fext - (f0 + inc * (f1 - f0))) / sc).max()), 1e-11)
    c.expect('fext(0) is the vector of the constant forces alone', np.array_equal(f0, fc))
    # the same object after its definition changed (longer / wider panel, other edge flags, m and n exchanged): the load
    # vector must be the virtual work on the displacements the object reports NOW
    if model in ('plate', 'cpanel') and (forces_cte or forces_inc):
        what = str(rng.choice(['a', 'b', 'flags', 'swap_mn']))
        if what == 'a':
            p.a = p.a * float(rng.uniform(1.05, 1.6))
        elif what == 'b':
            p.b = p.b * float(rng.uniform(1.05, 1.6))
        elif what == 'flags':
            gen.apply_flags(p, gen.flags(rng, style=str(rng.choice(['ss', 'clamped', 'binary', 'real']))))
        else:
            p.m, p.n = p.n, p.m
        c.tag('redefined:' + what)
        c.desc['redefined'] = what
        fext2 = np.asarray(p.calc_fext(inc=inc, size=d['size'], col0=col0, silent=True), dtype=float)
        p.calc_k0(silent=True)
        judge_work(c, 'panel after redefinition (%s):' % what, fext2[col0:col0 + own], cs[:3], uvw_fn, forces_cte, forces_inc, inc)
    # linear static through the package's own driver (Analysis.static -> sparse.solve), restrained panels only
    if fl['_style'] in ('ss', 'clamped') and (forces_cte or forces_inc) and model != 'plate_w':
        ps = mk(forces_cte, forces_inc)
        try:
            css = ps.static(silent=True)
            incs = ps.increments
        except Exception as e:
            c.info['static_rejected'] = repr(e)[:100]
            return c
        c.hit('Panel.static')
        nobs = judge_solve_events(c, 'Panel.static:')
        if nobs:
            K = ps.k0 if ps.k0 is not None else None
            c.expect('Panel.static reports load factor 1', list(incs) == [1.])
            # linearity in the loads: doubling every force doubles the solution
            p2 = mk([[f[0], f[1], 2 * f[2], 2 * f[3], 2 * f[4]] for f in forces_cte],
                    [[f[0], f[1], 2 * f[2], 2 * f[3], 2 * f[4]] for f in forces_inc])
            cs2 = p2.static(silent=True)
            monitors.drain('solve')
            a_ = np.asarray(css[0]); b_ = np.asarray(cs2[0])
            sc = np.abs(a_) + 1e-9 * np.abs(a_).max() + 1e-300
            c.judge('static solution scales linearly with the loads', float((np.abs(b_ - 2 * a_) / sc).max()), 1e-7)
    return c


def case_assembly(rng, tier):
    ad = gen.assembly_desc(rng, npan=int(rng.integers(2, 6)), mmax=5)
    forces = {}
    for k, d in enumerate(ad['panels']):
        if rng.random() < 0.7:
            forces[k] = (gen_forces(rng, d['a'], d['b'], 4), gen_forces(rng, d['a'], d['b'], 3))
    inc = float(rng.uniform(0, 2))
    c = Case({'obj': 'assembly', 'assembly': ad, 'forces': {str(k): v for k, v in forces.items()}, 'inc': inc})
    c.tag('obj:assembly')
    c.nontrivial = sum(len(v[0]) + len(v[1]) for v in forces.values()) >= 2
    ass, ps, conn = gen.build_assembly(ad)
    for k, (fc, fi) in forces.items():
        for f in fc:
            ps[k].add_force(*f, cte=True)
        for f in fi:
            ps[k].add_force(*f, cte=False)
    size = ass.get_size()
    try:
        fext = np.asarray(ass.calc_fext(inc=inc, silent=True), dtype=float)
    except Exception as e:
        return c.reject('%s in PanelAssembly.calc_fext: %s' % (type(e).__name__, str(e)[:100]))
    c.hit('PanelAssembly.calc_fext')
    if fext.shape != (size,):
        # no panel carries a force: the sum starts from the integer 0
        c.expect('assembly fext has the assembly size', not any(forces.values()), 'shape %r' % (fext.shape,))
        return c
    for p in ps:
        p.calc_k0(silent=True)
    for trial in range(4):
        cv = rng.normal(size=size)
        tot = 0.0; sc = 0.0
        for k, p in enumerate(ps):
            fc, fi = forces.get(k, ([], []))
            cp = cv[p.col_start:p.col_end]
            w0, s0 = work(lambda cc, xs, ys: p.uvw(cc, xs=xs, ys=ys), cp, fc)
            w1, s1 = work(lambda cc, xs, ys: p.uvw(cc, xs=xs, ys=ys), cp, fi)
            tot += w0 + inc * w1
            sc += s0 + abs(inc) * s1
        got = float(fext @ cv)
        sc += float(np.abs(fext) @ np.abs(cv))
        c.judge('assembly: fext.c equals the virtual work with each panel evaluated on its own range', abs(got - tot), TOL * sc + 1e-300)
    return c


def case_bay(rng, tier):
    d = gen.bay_desc(rng, mmax=5, nstiff=(0, 3), fl=gen.flags(rng, style=str(rng.choice(['ss', 'clamped', 'mixed', 'free']))))
    c = Case({'obj': 'bay', 'bay': d})
    c.tag('obj:bay', 'curved' if 'r' in d else 'flat')
    try:
        bay = gen.build_bay(d)
        bay.calc_k0(silent=True)
    except Exception as e:
        return c.reject('%s building bay: %s' % (type(e).__name__, str(e)[:100]))
    fskin = gen_forces(rng, d['a'], d['b'], 4)
    # skin forces exactly on the line between two skin strips (where the stiffeners sit) and on the bay edges
    lines = list(d.get('cuts', [])) + [0.0, d['b']]
    for f in fskin:
        if rng.random() < 0.3:
            f[1] = float(lines[int(rng.integers(0, len(lines)))])
    bay.forces_skin = [list(f) for f in fskin]
    floc = {}
    for si, s in enumerate(bay.stiffeners):
        nm = type(s).__name__
        if nm == 'BladeStiff1D':
            continue
        if getattr(s, 'flange', None) is not None and rng.random() < 0.7:
            ff = gen_forces(rng, s.flange.a, s.flange.b, 3)
            for f in ff:
                s.flange.add_force(*f)
            floc[(si, 'flange')] = ff
        if nm == 'TStiff2D' and rng.random() < 0.7:
            fb = gen_forces(rng, s.base.a, s.base.b, 3)
            for f in fb:
                s.base.add_force(*f)
            floc[(si, 'base')] = fb
    c.desc['forces_skin'] = fskin
    c.desc['forces_stiffeners'] = {'%d:%s' % k: v for k, v in floc.items()}
    if fskin:
        c.tag('force:skin')
    for (si, reg), v in floc.items():
        if v:
            c.tag('force:' + reg)
    c.nontrivial = len(fskin) + sum(len(v) for v in floc.values()) >= 2
    try:
        fext = np.asarray(bay.calc_fext(silent=True), dtype=float)
    except Exception as e:
        if fskin:
            # the statement names forces on the skin of a stiffened bay: a refusal for every such input is reported
            mech = 'bay-skin-forces-always-raise' if 'Panel object must be passed' in str(e) else None
            c.violate('forces on the skin of a stiffened bay are accepted', '%s: %s' % (type(e).__name__, str(e)[:100]), mechanism=mech)
            return c
        return c.reject('%s in StiffPanelBay.calc_fext: %s' % (type(e).__name__, str(e)[:100]))
    c.hit('StiffPanelBay.calc_fext')
    size = bay.get_size()
    c.expect('bay fext has the bay size', fext.shape == (size,), 'shape %r vs %d' % (fext.shape, size))
    if fext.shape != (size,):
        return c
    for trial in range(4):
        cv = rng.normal(size=size)
        tot, sc = work(lambda cc, xs, ys: bay.uvw_skin(cc, xs=xs, ys=ys), cv, fskin)
        for (si, reg), ff in floc.items():
            w0, s0 = work(lambda cc, xs, ys: bay.uvw_stiffener(cc, si, region=reg, xs=xs, ys=ys), cv, ff)
            tot += w0; sc += s0
        got = float(fext @ cv)
        sc += float(np.abs(fext) @ np.abs(cv))
        c.judge('bay: fext.c equals the virtual work on skin, base and flange displacements', abs(got - tot), TOL * sc + 1e-300)
    return c
