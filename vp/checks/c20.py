"""C20 - results depend on the model definition only, not on call history or
thread count.

Monitor: call-history recorder.  For a generated object definition a random
word over the object's public evaluation methods is executed on ONE object;
every call is compared (O8) with the same call made FIRST on a freshly
constructed identical object.  Digests of every caller-owned array are taken
before and after each call.  OpenMP kernels are repeated under different
thread counts (schedule stress)."""
import hashlib

import numpy as np
import scipy.sparse as sp

from .. import gen
from ..core import Case

KINDS = ['panel', 'panel', 'assembly', 'bay', 'shell']


def plan(tier):
    n = 160 if tier == 'quick' else 4000
    return dict(sanitize={'extensions': ['compmech.panel.models.clt_bardell_field', 'compmech.conecyl.clpt.clpt_commons_bc1', 'compmech.conecyl.clpt.clpt_commons_bc3', 'compmech.conecyl.clpt.clpt_commons_bc4', 'compmech.conecyl.fsdt.fsdt_commons_bc1'], 'n_cases': 80}, n_cases=n, shards=16, min_nontrivial=n // 3,
                min_tags={'kind:panel': n // 5, 'kind:assembly': n // 10, 'kind:bay': n // 10, 'kind:shell': n // 10, 'pattern:query_plot_query': n // 40},
                min_hits={'plot_calls': n // 3},      # plots that cannot be drawn are dropped from the histories: too few drawn plots make the run inconclusive
                watchdog_s=2400 if tier == 'quick' else 14000,
                rule='object definitions (panels of the flat / cylindrical models with loads, forces, aerodynamic data; assemblies with penalty '
                     'connections; stiffened bays with the three stiffener kinds; shells of several models) x random call histories of length 3..%d over '
                     'the public evaluation methods (matrices, force vectors, buckling / frequency / static analyses, field recovery), with repetitions; '
                     'every method also appears as the first call on a fresh object (its reference); non-trivial = history with >= 3 distinct '
                     'methods; distinct = hash of definition + history word' % (10 if tier == 'quick' else 14),
                assumptions=['references are computed on fresh objects in the same process (the package keeps no module-level state between objects)',
                             'eigen-solver outputs are compared as spectra at 1e-8 (ARPACK start vectors are random); everything else bit-exactly'])


def dig(x):
    if x is None:
        return 'None'
    if sp.issparse(x):
        m = sp.coo_matrix(x)
        m.sum_duplicates()
        o = np.lexsort((m.col, m.row))
        h = hashlib.sha256()
        h.update(repr(m.shape).encode()); h.update(m.row[o].astype(np.int64).tobytes()); h.update(m.col[o].astype(np.int64).tobytes())
        h.update(np.ascontiguousarray(m.data[o]).tobytes())
        return h.hexdigest()[:16]
    if isinstance(x, dict):
        return hashlib.sha256(('|'.join('%s:%s' % (k, dig(v)) for k, v in sorted(x.items()))).encode()).hexdigest()[:16]
    if isinstance(x, (list, tuple)):
        return hashlib.sha256(('|'.join(dig(v) for v in x)).encode()).hexdigest()[:16]
    try:
        a = np.ascontiguousarray(np.asarray(x))
        return hashlib.sha256(a.tobytes() + repr(a.shape).encode()).hexdigest()[:16]
    except Exception:
        return repr(x)[:40]


class Op(object):
    def __init__(self, name, fn, kind='exact', inputs=()):
        self.name = name
        self.fn = fn
        self.kind = kind          # 'exact' | 'eig'
        self.inputs = inputs      # names of ctx arrays handed to the call (must stay unmodified)


def _plot(fn, *a, **kw):
    import matplotlib
    matplotlib.use('Agg')
    import matplotlib.pyplot as plt
    try:
        return fn(*a, save=False, gridx=11, **kw) and None
    finally:
        plt.close('all')


def spectrum_close(a, b, tol=1e-8, buckling=False):
    """lowest values of two eigen-solutions agree to solver precision.
    buckling=True: the solvers work on mu = -1/lambda around the shift 1, so mu carries an ABSOLUTE error of a few eps; the
    comparison is made on mu (|1/a - 1/b| <= 1e-14 + tol*|mu|): multipliers of amplitudes the geometric matrix does not
    touch (mu = +-eps noise, lambda = +-1e16 or inf, different at every call) compare equal, a start-vector dependent 6e-9
    relative difference at lambda = 2.6e7 does too, a genuine 1e-6 relative change of any multiplier below 1e8 does not."""
    a = np.real(np.asarray(a, dtype=complex)); b = np.real(np.asarray(b, dtype=complex))
    if buckling:
        with np.errstate(divide='ignore', invalid='ignore'):
            ma = np.sort(np.where(np.isfinite(a) & (a != 0), 1.0 / a, 0.0)); mb = np.sort(np.where(np.isfinite(b) & (b != 0), 1.0 / b, 0.0))
        n = min(len(ma), len(mb))
        if n == 0:
            return len(ma) == len(mb)
        # compare the n largest |mu| (the lowest |lambda|) as sorted lists from both ends
        k = min(n, 5)
        lo = np.abs(ma[:k] - mb[:k]) <= 1e-14 + tol * (np.abs(ma[:k]) + np.abs(mb[:k]))
        hi = np.abs(ma[-k:] - mb[-k:]) <= 1e-14 + tol * (np.abs(ma[-k:]) + np.abs(mb[-k:]))
        return bool(lo.all() and hi.all()) if len(ma) == len(mb) else bool(hi.all() and lo.all())
    a = np.sort(a); b = np.sort(b)
    n = min(len(a), len(b), 5)
    if n == 0:
        return len(a) == len(b)
    a = a[np.isfinite(a)][:n]; b = b[np.isfinite(b)][:n]
    if len(a) != len(b):
        return False
    return bool(np.all(np.abs(a - b) <= tol * (np.abs(a) + np.abs(b)) + 1e-300))


# ---------------------------------------------------------------------------------------------------------
# object kinds
# ---------------------------------------------------------------------------------------------------------
def make_panel(rng, tier):
    model = str(rng.choice(['plate', 'cpanel']))
    fl = gen.flags(rng, style=str(rng.choice(['ss', 'clamped'])))
    d = gen.panel_desc(rng, model=model, mmax=6, sub=False, place=False, fl=fl)
    d['m'] = max(d['m'], 5); d['n'] = max(d['n'], 5)
    size = 3 * d['m'] * d['n']
    t = float(sum(d['lam']['plyts']))
    ctx = {'c': rng.normal(size=size) * t * 0.3, 'xs': rng.uniform(0, d['a'], 7), 'ys': rng.uniform(0, d['b'], 7)}
    N = [float(-abs(rng.normal()) - 0.1), float(rng.normal()), float(rng.normal())]
    force = [float(rng.uniform(0, d['a'])), float(rng.uniform(0, d['b']))] + [float(v) for v in rng.normal(size=3)]
    desc = {'panel': d, 'N': N, 'force': force}

    def factory():
        p = gen.build_panel(d, explicit_model=False)
        p.Nxx, p.Nyy, p.Nxy = N
        p.add_force(*force)
        p.flow = 'x'; p.beta = 3.0; p.gamma = 0.7 if model == 'cpanel' else None
        p.num_eigvalues = 3
        p.nx = p.ny = 7
        return p
    ops = [
        Op('calc_k0', lambda p, x: p.calc_k0(silent=True)),
        Op('calc_kG0', lambda p, x: p.calc_kG0(silent=True)),
        Op('calc_kM', lambda p, x: p.calc_kM(silent=True)),
        Op('calc_kA', lambda p, x: p.calc_kA(silent=True)),
        Op('calc_cA', lambda p, x: (p.calc_cA(0.3, silent=True), p.cA)[1]),
        Op('calc_fext', lambda p, x: p.calc_fext(silent=True)),
        Op('calc_fint', lambda p, x: np.asarray(p.calc_fint(x['c'], silent=True)), inputs=('c',)),
        Op('calc_kT', lambda p, x: p.calc_kT(c=x['c'], silent=True), inputs=('c',)),
        Op('calc_kG0(c)', lambda p, x: p.calc_kG0(c=x['c'], silent=True), inputs=('c',)),
        Op('calc_k0(c)', lambda p, x: p.calc_k0(c=x['c'], silent=True), inputs=('c',)),
        Op('lb', lambda p, x: (p.lb(silent=True, sparse_solver=False), p.eigvals)[1], kind='eig'),
        Op('freq', lambda p, x: (p.freq(silent=True, sparse_solver=False), p.eigvals)[1], kind='eig'),
        Op('static', lambda p, x: p.static(silent=True)),
        Op('uvw', lambda p, x: p.uvw(x['c'], xs=x['xs'], ys=x['ys']), inputs=('c', 'xs', 'ys')),
        Op('strain', lambda p, x: p.strain(x['c'], xs=x['xs'], ys=x['ys'], NLterms=False), inputs=('c', 'xs', 'ys')),
        Op('stress', lambda p, x: p.stress(x['c'], xs=x['xs'], ys=x['ys'], NLterms=False), inputs=('c', 'xs', 'ys')),
        Op('calc_kt_kr', lambda p, x: list(__import__('compmech.panel.connections', fromlist=['calc_kt_kr']).calc_kt_kr(p, p, 'xcte'))),
        Op('plot', lambda p, x: _plot(p.plot, x['c'], gridy=9, num_levels=4), kind='side', inputs=('c',)),
        Op('plot(deformed)', lambda p, x: _plot(p.plot, x['c'], gridy=9, num_levels=4, deform_u=True, vec='u'), kind='side', inputs=('c',)),
    ]
    return desc, factory, ops, ctx


def make_assembly(rng, tier):
    ad = gen.assembly_desc(rng, npan=int(rng.integers(2, 4)), mmax=4, offset_prob=0.5)
    for d in ad['panels']:
        d['flags'] = gen.flags(rng, 'ss')
    loads = [[float(-abs(rng.normal()) - 0.1), 0.0, 0.0] for _ in ad['panels']]
    forces = [[float(rng.uniform(0, d['a'])), float(rng.uniform(0, d['b']))] + [float(v) for v in rng.normal(size=3)] for d in ad['panels']]
    size = sum(3 * d['m'] * d['n'] for d in ad['panels'])
    ctx = {'c': rng.normal(size=size) * 1e-4}
    desc = {'assembly': ad}

    def factory():
        ass, ps, conn = gen.build_assembly(ad)
        for p, N, f in zip(ps, loads, forces):
            p.Nxx, p.Nyy, p.Nxy = N
            p.add_force(*f)
            p.group = 'g'
            p.nx = p.ny = 6
        return ass
    ops = [
        Op('calc_k0', lambda a, x: a.calc_k0(silent=True)),
        Op('calc_kG0', lambda a, x: a.calc_kG0(silent=True)),
        Op('calc_kM', lambda a, x: a.calc_kM(silent=True)),
        Op('get_k0_conn', lambda a, x: a.get_k0_conn()),
        Op('calc_fext', lambda a, x: a.calc_fext(silent=True)),
        Op('calc_fint', lambda a, x: np.asarray(a.calc_fint(x['c'], silent=True)), inputs=('c',)),
        Op('calc_kT', lambda a, x: a.calc_kT(c=x['c'], silent=True), inputs=('c',)),
        Op('uvw', lambda a, x: a.uvw(x['c'], 'g', gridx=4, gridy=3), inputs=('c',)),
        Op('strain', lambda a, x: a.strain(x['c'], 'g', gridx=4, gridy=3, NLterms=False), inputs=('c',)),
        Op('stress', lambda a, x: a.stress(x['c'], 'g', gridx=4, gridy=3, NLterms=False), inputs=('c',)),
    ]
    return desc, factory, ops, ctx


def make_bay(rng, tier):
    d = gen.bay_desc(rng, mmax=4, nstiff=(1, 2), ncuts=1, fl=gen.flags(rng, 'ss'))
    N = float(-abs(rng.normal()) - 0.1)
    desc = {'bay': d}
    fskin = [[float(rng.uniform(0, d['a'])), float(rng.uniform(0, d['b']))] + [float(v) for v in rng.normal(size=3)]]

    def factory():
        bay = gen.build_bay(d)
        for p in bay.panels:
            p.Nxx = N
        for s in bay.bladestiff1ds:
            s.Fx = -0.3
        for s in bay.bladestiff2ds:
            s.flange.Nxx = -0.2
        for s in bay.tstiff2ds:
            s.base.Nxx = -0.2; s.flange.Nxx = -0.1
        bay.forces_skin = [list(f) for f in fskin]
        bay.flow = 'x'; bay.Mach = 2.0; bay.rho_air = 1.2; bay.V = 600.; bay.speed_sound = 340.
        return bay
    probe = factory()
    size = probe.get_size() if probe.model else None
    if size is None:
        probe.calc_k0(silent=True); size = probe.get_size()
    ctx = {'c': rng.normal(size=size) * 1e-4, 'xs': rng.uniform(0, d['a'], 5), 'ys': rng.uniform(0, d['b'], 5)}
    two_d = [i for i, s in enumerate(d['stiffeners']) if s['kind'] != 'blade1d']
    ops = [
        Op('calc_k0', lambda b, x: b.calc_k0(silent=True)),
        Op('calc_kG0', lambda b, x: b.calc_kG0(silent=True)),
        Op('calc_kM', lambda b, x: b.calc_kM(silent=True)),
        Op('calc_fext', lambda b, x: b.calc_fext(silent=True)),
        Op('get_size', lambda b, x: b.get_size()),
        Op('uvw_skin', lambda b, x: b.uvw_skin(x['c'], xs=x['xs'], ys=x['ys']), inputs=('c', 'xs', 'ys')),
        Op('uvw_skin(grid)', lambda b, x: b.uvw_skin(x['c'], gridx=11, gridy=9), inputs=('c',)),
        Op('plot_skin', lambda b, x: _plot(b.plot_skin, x['c'], gridy=9, num_levels=4, silent=True), kind='side', inputs=('c',)),
        Op('plot_skin(deformed)', lambda b, x: _plot(b.plot_skin, x['c'], gridy=9, num_levels=4, deform_u=True, silent=True), kind='side', inputs=('c',)),
    ]
    if not two_d:
        ops.append(Op('calc_kA', lambda b, x: b.calc_kA(silent=True)))
    for i in two_d[:1]:
        ops.append(Op('uvw_stiffener', lambda b, x, i=i: b.uvw_stiffener(x['c'], i, region='flange', xs=x['xs'][:3] * 0.5, ys=x['ys'][:3] * 0.01), inputs=('c',)))
        ops.append(Op('uvw_stiffener(grid)', lambda b, x, i=i: b.uvw_stiffener(x['c'], i, region='flange', gridx=11, gridy=9), inputs=('c',)))
        ops.append(Op('plot_stiffener(deformed)', lambda b, x, i=i: _plot(b.plot_stiffener, x['c'], i, region='flange', gridy=9, num_levels=4, deform_u=True, silent=True),
                      kind='side', inputs=('c',)))
    return desc, factory, ops, ctx


def make_shell(rng, tier):
    model = str(rng.choice(['clpt_donnell_bc1', 'clpt_donnell_bc3', 'clpt_sanders_bc1', 'clpt_donnell_bc4', 'fsdt_donnell_bc1']))
    d = gen.shell_desc(rng, models=[model], mmax=3, nmax=2, springs=False)
    d['m1'] = max(d['m1'], 2); d['m2'] = max(d['m2'], 2)
    d['Fc'] = float(abs(rng.normal()) * 1e3 + 10.)
    if 'fsdt' not in model:
        d['P'] = float(rng.normal() * 10.)
    desc = {'shell': d}
    force = [float(rng.uniform(0, d['L'])), float(rng.uniform(0, 360))] + [float(v) for v in rng.normal(size=3)]

    def factory():
        cc = gen.build_shell(d)
        cc.add_force(*force)
        cc.num_eigvalues = 3
        return cc
    probe = factory(); probe._rebuild()
    n = probe.get_size() - len(probe.excluded_dofs)
    h = d.get('h') or d['plyt'] * len(d['stack'])
    # a prescribed twist and a load factor != 1: the full-size amplitude vector then carries prescribed entries that the
    # class scales by the load factor on its way in
    d['thetaTdeg'] = float(rng.choice([-1, 1]) * rng.uniform(0.01, 0.2))
    inc = float(rng.uniform(0.3, 0.9))
    desc['inc'] = inc
    ctx = {'c': rng.normal(size=n) * h * 0.05, 'xs': rng.uniform(0, d['L'], 6), 'ts': rng.uniform(0, 6.28, 6),
           'cfull': rng.normal(size=probe.get_size()) * h * 0.05}
    ops = [
        Op('uvw(full,inc)', lambda s, x: s.uvw(x['cfull'], xs=x['xs'], ts=x['ts'], inc=inc), inputs=('cfull', 'xs', 'ts')),
        Op('strain(full,inc)', lambda s, x: s.strain(x['cfull'], xs=x['xs'], ts=x['ts'], inc=inc), inputs=('cfull', 'xs', 'ts')),
        Op('stress(full,inc)', lambda s, x: s.stress(x['cfull'], xs=x['xs'], ts=x['ts'], inc=inc), inputs=('cfull', 'xs', 'ts')),
        Op('calc_fint(inc)', lambda s, x: np.asarray(s.calc_fint(x['c'], inc=inc, silent=True)), inputs=('c',)),
        Op('calc_kT(inc)', lambda s, x: s.calc_kT(x['c'], inc=inc, silent=True), inputs=('c',)),
        Op('plot', lambda s, x: _plot(s.plot, x['c'], gridt=9, num_levels=4), kind='side', inputs=('c',)),
        Op('plot(deformed)', lambda s, x: _plot(s.plot, x['c'], gridt=9, num_levels=4, deform_u=True), kind='side', inputs=('c',)),
        Op('calc_k0', lambda s, x: s.calc_k0(silent=True)),
        Op('calc_fext', lambda s, x: s.calc_fext(silent=True)),
        Op('static', lambda s, x: s.static(silent=True)),
        Op('lb', lambda s, x: (s.lb(), s.eigvals)[1], kind='eig'),
        Op('calc_fint', lambda s, x: np.asarray(s.calc_fint(x['c'], silent=True)), inputs=('c',)),
        Op('calc_kT', lambda s, x: s.calc_kT(x['c'], silent=True), inputs=('c',)),
        Op('uvw', lambda s, x: s.uvw(x['c'], xs=x['xs'], ts=x['ts']), inputs=('c', 'xs', 'ts')),
        Op('strain', lambda s, x: s.strain(x['c'], xs=x['xs'], ts=x['ts']), inputs=('c', 'xs', 'ts')),
        Op('stress', lambda s, x: s.stress(x['c'], xs=x['xs'], ts=x['ts']), inputs=('c', 'xs', 'ts')),
    ]
    return desc, factory, ops, ctx


def run_case(rng, tier, idx):
    kind = KINDS[idx % len(KINDS)]
    desc, factory, ops, ctx = globals()['make_' + kind](rng, tier)
    c = Case(dict(desc, kind=kind))
    c.tag('kind:' + kind)
    lmax = 10 if tier == 'quick' else 14
    L = int(rng.integers(3, lmax + 1))
    word = [ops[int(rng.integers(0, len(ops)))] for _ in range(L)]
    if rng.random() < 0.5 and L >= 2:
        word[-1] = word[0]           # ask the same quantity twice with other calls in between
    # a third of the histories contain the everyday post-processing pattern: a field query on the default grid, a (deformed)
    # plot, the same query again
    byname = {o.name: o for o in ops}
    sides = [o for o in ops if o.kind == 'side']
    grids = [o for o in ops if o.name.endswith('(grid)')]
    if sides and grids and rng.random() < 0.35:
        q = grids[int(rng.integers(0, len(grids)))]
        # a plot of the same region as the query (skin / stiffener), deformed ones preferred
        region = 'stiffener' if 'stiffener' in q.name else ('skin' if 'skin' in q.name else '')
        same = [o for o in sides if region in o.name and ('stiffener' in o.name) == ('stiffener' in q.name)] or sides
        deformed = [o for o in same if 'deformed' in o.name]
        pool = deformed if (deformed and rng.random() < 0.7) else same
        pl = pool[int(rng.integers(0, len(pool)))]
        at = int(rng.integers(0, len(word) + 1))
        word[at:at] = [q, pl, q]
        c.tag('pattern:query_plot_query')
    c.desc['history'] = [o.name for o in word]
    c.key = None
    # references: each distinct op first on a fresh object
    refs = {}
    import warnings
    # plots are interleaving calls only: what they draw is not a result, but they are part of the histories the statement names
    for o in [w for w in {w.name: w for w in word}.values() if w.kind == 'side']:
        try:
            with warnings.catch_warnings():
                warnings.simplefilter('ignore')
                o.fn(factory(), {k: v.copy() for k, v in ctx.items()})
        except Exception as e:
            c.info.setdefault('plot_ops_unavailable', {})[o.name] = '%s: %s' % (type(e).__name__, str(e)[:60])
            word = [w for w in word if w.name != o.name]
    c.desc['history'] = [o.name for o in word]
    for o in {w.name: w for w in word}.values():
        if o.kind == 'side':
            continue
        obj = factory()
        args = {k: v.copy() for k, v in ctx.items()}
        try:
            with warnings.catch_warnings():
                warnings.simplefilter('ignore')
                res = o.fn(obj, args)
            refs[o.name] = ('ok', res if o.kind == 'eig' else dig(res))
            c.hit('first_calls')
        except Exception as e:
            refs[o.name] = ('raise', '%s: %s' % (type(e).__name__, str(e)[:80]))
            c.violate('can be requested first on a freshly defined object: %s.%s' % (kind, o.name), refs[o.name][1],
                      mechanism='first-call-raises:%s.%s' % (kind, o.name))
        for k in o.inputs:
            c.expect('caller-owned input not modified (%s of %s.%s)' % (k, kind, o.name), np.array_equal(args[k], ctx[k]))
    # the history on one object
    obj = factory()
    for pos, o in enumerate(word):
        args = {k: v.copy() for k, v in ctx.items()}
        if o.kind == 'side':
            try:
                with warnings.catch_warnings():
                    warnings.simplefilter('ignore')
                    o.fn(obj, args)
                c.hit('plot_calls')
            except Exception:
                pass
            for k in o.inputs:
                c.expect('caller-owned input not modified (%s of %s.%s)' % (k, kind, o.name), np.array_equal(args[k], ctx[k]))
            continue
        try:
            with warnings.catch_warnings():
                warnings.simplefilter('ignore')
                res = o.fn(obj, args)
            got = ('ok', res if o.kind == 'eig' else dig(res))
        except Exception as e:
            got = ('raise', '%s: %s' % (type(e).__name__, str(e)[:80]))
        c.hit('history_calls')
        ref = refs[o.name]
        if ref[0] == 'raise':
            continue           # already reported as a first-call refusal
        if got[0] == 'raise':
            c.violate('available after the history as it is on a fresh object: %s.%s' % (kind, o.name),
                      'position %d of %r: %s' % (pos, c.desc['history'], got[1]))
            continue
        if o.kind == 'eig':
            same = spectrum_close(got[1], ref[1], buckling=o.name.startswith('lb'))
        else:
            same = got[1] == ref[1]
        c.expect('same result as the first call on a fresh object: %s.%s' % (kind, o.name), same,
                 'position %d of history %r' % (pos, c.desc['history']))
        for k in o.inputs:
            c.expect('caller-owned input not modified (%s of %s.%s)' % (k, kind, o.name), np.array_equal(args[k], ctx[k]))
    c.nontrivial = len({o.name for o in word}) >= 3
    # schedule stress for the threaded field kernel of this object (bit-exact across thread counts and repetitions)
    if kind == 'panel':
        p = factory(); p.calc_k0(silent=True)
        base = None
        for rep in range(6):
            p.out_num_cores = int(rng.integers(1, 17))
            out = dig(p.uvw(ctx['c'], xs=ctx['xs'], ys=ctx['ys'])) + dig(p.strain(ctx['c'], xs=ctx['xs'], ys=ctx['ys'], NLterms=False))
            c.hit('thread_reps')
            if base is None:
                base = out
            c.expect('field results identical for every number of worker threads and repetition', out == base)
    if kind == 'shell':
        # the threaded integration kernels: internal force and tangent of the same state for several thread counts (the partition
        # changes the summation order, not the integration grid: agreement to 1e-9 of the largest entry)
        base = None
        for rep, nthreads in enumerate([1] + [int(v) for v in rng.integers(2, 17, 3)]):
            s_ = factory()
            s_.ni_num_cores = nthreads
            try:
                f_ = np.asarray(s_.calc_fint(ctx['c'], silent=True), dtype=float)
                k_ = s_.calc_kT(ctx['c'], silent=True).toarray()
            except Exception as e:
                c.info['thread_clause_rejected'] = '%s: %s' % (type(e).__name__, str(e)[:80])
                break
            c.hit('thread_reps')
            if base is None:
                base = (f_, k_)
                continue
            c.judge('shell fint identical (1e-9) for every number of integration threads', float(np.abs(f_ - base[0]).max()), 1e-9 * float(np.abs(base[0]).max()) + 1e-300,
                    data={'threads': nthreads})
            c.judge('shell kT identical (1e-9) for every number of integration threads', float(np.abs(k_ - base[1]).max()), 1e-9 * float(np.abs(base[1]).max()) + 1e-300,
                    data={'threads': nthreads})
    return c
