"""C13 - assembled matrices are sums of component matrices; the skin
partition of a bay is irrelevant; stiffeners add symmetric PSD contributions.

Monitor: differential execution (O7) - assembled matrices of the real
PanelAssembly / StiffPanelBay against stand-alone component matrices from
separately constructed objects placed by the monitor; bays with the same skin
cut at different positions; bays with stiffeners added one at a time."""
import numpy as np

from .. import gen
from ..core import Case
from ..oracles import energy


def plan(tier):
    n = 240 if tier == 'quick' else 1600
    return dict(n_cases=n, shards=16, min_nontrivial=n // 3,
                min_tags={'obj:assembly': n // 6, 'obj:bay_split': n // 6, 'obj:bay_stiff': n // 6, 'stiff:blade1d': n // 30, 'stiff:blade2d': n // 30,
                          'stiff:t2d': n // 30, 'nstiff>=2': n // 20},
                watchdog_s=2400 if tier == 'quick' else 14000,
                rule='assemblies of 2..6 panels of differing m,n, laminates and flags in shuffled order with the five connection kinds; bays (flat and '
                     'curved) whose skin is cut at 0..4 random positions; bays with 1..3 stiffeners of the three kinds in every insertion order, with/without '
                     'base; non-trivial = unequal panels / a non-central cut / at least one stiffener; distinct = hash of the description',
                assumptions=['stand-alone matrices come from separately constructed Panel / StiffPanelBay objects with the same definition',
                             'documented block order: skin, BladeStiff2D flanges in insertion order, TStiff2D base+flange in insertion order'])


def rel(a, b, extra=None):
    sc = np.abs(a) + np.abs(b)
    if extra is not None:
        sc = sc + extra
    sc = sc + 1e-6 * (sc.max() if sc.size else 1.0) + 1e-300
    return float((np.abs(a - b) / sc).max()) if a.size else 0.0


def run_case(rng, tier, idx):
    k = idx % 3
    if k == 0:
        return case_assembly(rng, tier)
    if k == 1:
        return case_split(rng, tier)
    return case_stiff(rng, tier)


def case_assembly(rng, tier):
    ad = gen.assembly_desc(rng, npan=int(rng.integers(2, 7)), mmax=5)
    loads = [gen.load_triple(rng) for _ in ad['panels']]
    c = Case({'obj': 'assembly', 'assembly': ad, 'loads': loads})
    c.tag('obj:assembly')
    preused = bool(rng.random() < 0.3)
    if preused:
        # panels that already lived a life of their own (evaluated stand-alone with other series orders) before they were given
        # their final definition and assembled: the assembly is that of the panels as they are defined when it is built
        from compmech.panel.assembly import PanelAssembly
        c.tag('panels:pre-used')
        ps = [gen.build_panel(d) for d in ad['panels']]
        for p_, d_ in zip(ps, ad['panels']):
            p_.m, p_.n = d_['m'] + int(rng.integers(1, 3)), d_['n'] + int(rng.integers(0, 3))
            p_.calc_k0(silent=True); p_.calc_kM(silent=True); p_.get_size()
            p_.m, p_.n = d_['m'], d_['n']
        conn = []
        for cn_ in ad['conns']:
            cc_ = dict(cn_); cc_['p1'] = ps[cn_['p1']]; cc_['p2'] = ps[cn_['p2']]
            conn.append(cc_)
        ass = PanelAssembly([ps[i] for i in ad['order']], conn=conn if conn else None)
    else:
        ass, ps, conn = gen.build_assembly(ad)
    for p, N in zip(ps, loads):
        p.Nxx, p.Nyy, p.Nxy = N
        p.add_force(float(rng.uniform(0, p.a)), float(rng.uniform(0, p.b)), *[float(v) for v in rng.normal(size=3)])
        if rng.random() < 0.6:
            p.add_force(float(rng.uniform(0, p.a)), float(rng.uniform(0, p.b)), *[float(v) for v in rng.normal(size=3)], cte=False)
    forces = [list(p.forces[0]) for p in ps]
    forces_inc = [[list(f) for f in p.forces_inc] for p in ps]
    inc = float(rng.uniform(0.1, 1.9))
    c.desc['inc'] = inc
    try:
        size = ass.get_size()
        K = ass.calc_k0(silent=True).toarray()
        G = ass.calc_kG0(silent=True).toarray()
        M = ass.calc_kM(silent=True).toarray()
        F = np.asarray(ass.calc_fext(inc=inc, silent=True))
        KC = ass.get_k0_conn().toarray()
    except Exception as e:
        return c.reject('%s in assembly: %s' % (type(e).__name__, str(e)[:100]))
    c.hit('assembly')
    own = [3 * d['m'] * d['n'] for d in ad['panels']]
    c.expect('reported size equals the sum of the component sizes', size == sum(own) and K.shape == (size, size))
    # every panel occupies its own range, ranges are disjoint and contiguous in the given order
    start = 0
    for i in ad['order']:
        c.expect('panel ranges follow the assembly order', ps[i].row_start == start and ps[i].row_end == start + own[i])
        start += own[i]
    Ks = np.zeros((size, size)); Gs = np.zeros((size, size)); Ms = np.zeros((size, size)); Fs = np.zeros(size)
    for i, d in enumerate(ad['panels']):
        q = gen.build_panel(d)
        q.Nxx, q.Nyy, q.Nxy = loads[i]
        q.add_force(*forces[i])
        for f in forces_inc[i]:
            q.add_force(*f, cte=False)
        r0 = ps[i].row_start
        sl = slice(r0, r0 + own[i])
        Ks[sl, sl] += q.calc_k0(silent=True).toarray()
        Gs[sl, sl] += q.calc_kG0(silent=True).toarray()
        Ms[sl, sl] += q.calc_kM(silent=True).toarray()
        Fs[sl] += np.asarray(q.calc_fext(inc=inc, silent=True))
    c.judge('assembled k0 = sum of placed stand-alone k0 + connection matrix', rel(K, Ks + KC), 1e-12)
    c.judge('assembled kG0 = sum of placed stand-alone kG0', rel(G, Gs), 1e-12)
    c.judge('assembled kM = sum of placed stand-alone kM', rel(M, Ms), 1e-12)
    c.judge('assembled fext = placed stand-alone load vectors (constant and incrementable forces, load factor != 1)', rel(F, Fs), 1e-12)
    c.nontrivial = len(set((d['m'], d['n']) for d in ad['panels'])) > 1
    return c


def bay_matrices(bay, N):
    for p in bay.panels:
        p.Nxx, p.Nyy, p.Nxy = N
    K = bay.calc_k0(silent=True).toarray()
    G = bay.calc_kG0(silent=True).toarray()
    M = bay.calc_kM(silent=True).toarray()
    return K, G, M


def case_split(rng, tier):
    d = gen.bay_desc(rng, mmax=6, nstiff=(0, 0), ncuts=int(rng.integers(1, 5)))
    N = gen.load_triple(rng)
    c = Case({'obj': 'bay_split', 'bay': d, 'N': N})
    c.tag('obj:bay_split', 'curved' if 'r' in d else 'flat', 'cuts:%d' % len(d['cuts']))
    d0 = dict(d); d0['cuts'] = []
    try:
        K1, G1, M1 = bay_matrices(gen.build_bay(d), N)
        K0, G0, M0 = bay_matrices(gen.build_bay(d0), N)
    except Exception as e:
        return c.reject('%s in bay: %s' % (type(e).__name__, str(e)[:100]))
    c.hit('bay')
    # scale: sum over the pieces of |piece matrix| (cancellation between pieces), amplified for narrow pieces
    edges = [0.0] + list(d['cuts']) + [d['b']]
    amp = max(d['b'] / max(y2 - y1, 1e-300) for y1, y2 in zip(edges[:-1], edges[1:]))
    from compmech.panel import Panel
    S = [np.zeros_like(K0) for _ in range(3)]
    for y1, y2 in zip(edges[:-1], edges[1:]):
        p = Panel(a=d['a'], b=d['b'], r=d.get('r'), m=d['m'], n=d['n'], stack=list(d['stack']), plyt=d['plyt'],
                  laminaprop=tuple(d['laminaprop']), mu=d['mu'], y1=y1, y2=y2)
        gen.apply_flags(p, d['flags'])
        p.Nxx, p.Nyy, p.Nxy = N
        S[0] += np.abs(p.calc_k0(silent=True).toarray())
        S[1] += np.abs(p.calc_kG0(silent=True).toarray())
        S[2] += np.abs(p.calc_kM(silent=True).toarray())
    tol = 1e-10 * amp
    for nm, A1, A0, Sx in (('k0', K1, K0, S[0]), ('kG0', G1, G0, S[1]), ('kM', M1, M0, S[2])):
        c.judge('splitting the skin leaves %s unchanged' % nm, rel(A1, A0, extra=Sx), tol)
    # every skin strip with a pre-load of its own: bay kG0 = sum of the stand-alone strips' kG0
    bay = gen.build_bay(d)
    own = [gen.load_triple(rng) for _ in bay.panels]
    c.desc['own_loads'] = own
    Gs = np.zeros_like(G0); Ss = np.zeros_like(G0)
    for q, Nq in zip(bay.panels, own):
        q.Nxx, q.Nyy, q.Nxy = Nq
        p = Panel(a=d['a'], b=d['b'], r=d.get('r'), m=d['m'], n=d['n'], stack=list(d['stack']), plyt=d['plyt'],
                  laminaprop=tuple(d['laminaprop']), mu=d['mu'], y1=q.y1, y2=q.y2)
        gen.apply_flags(p, d['flags'])
        p.Nxx, p.Nyy, p.Nxy = Nq
        g = p.calc_kG0(silent=True).toarray()
        Gs += g; Ss += np.abs(g)
    if Ss.any():
        c.judge('bay kG0 with a pre-load of its own on every skin strip = sum of the stand-alone strips', rel(bay.calc_kG0(silent=True).toarray(), Gs, extra=Ss), tol)
    # third description: one Panel without sub-interval (analytic full-width kernels)
    p = Panel(a=d['a'], b=d['b'], r=d.get('r'), m=d['m'], n=d['n'], stack=list(d['stack']), plyt=d['plyt'],
              laminaprop=tuple(d['laminaprop']), mu=d['mu'])
    gen.apply_flags(p, d['flags'])
    p.Nxx, p.Nyy, p.Nxy = N
    c.judge('uncut bay equals the full-width panel: k0', rel(K0, p.calc_k0(silent=True).toarray(), extra=S[0]), 1e-10)
    c.judge('uncut bay equals the full-width panel: kG0', rel(G0, p.calc_kG0(silent=True).toarray(), extra=S[1]), 1e-10)
    c.judge('uncut bay equals the full-width panel: kM', rel(M0, p.calc_kM(silent=True).toarray(), extra=S[2]), 1e-10)
    c.nontrivial = True
    return c


def private_size(s):
    nm = s['kind']
    if nm == 'blade2d':
        return 3 * s['mf'] * s['nf']
    if nm == 't2d':
        return 3 * s['mf'] * s['nf'] + 3 * s['mb'] * s['nb']
    return 0


def judge_blade1d(c, d, s, bay_i, Ci, k):
    """Classifier only (the entry-wise judgement of the 1-D stiffener mass lives in C04): returns the
    mechanism key that explains an indefinite contribution of a 1-D blade stiffener, if its observed
    matrix equals the corresponding defect model."""
    from ..oracles import stiff1d
    o = stiff1d.contribution(d, bay_i, k, gen.apply_flags)
    sc = o['S'] + 1e-6 * o['S'].max() + 1e-300
    if k == 0:
        if o['c3_indefinite'] and float((np.abs(Ci - o['ref']) / sc).max()) <= 1e-8:
            return 'blade1d-flange-section-constants-indefinite'
        return None
    if o['alt'] is not None and float((np.abs(Ci - o['alt']) / sc).max()) <= 1e-8:
        return 'blade1d-flange-mass-coupling-doubled'
    return None


def case_stiff(rng, tier):
    d = gen.bay_desc(rng, mmax=5, nstiff=(1, 3), ncuts=int(rng.integers(1, 3)),
                     fl=gen.flags(rng, style=str(rng.choice(['ss', 'clamped', 'mixed', 'free']))))
    st = d['stiffeners']
    N = gen.load_triple(rng)
    c = Case({'obj': 'bay_stiff', 'bay': d, 'N': N})
    c.tag('obj:bay_stiff', 'curved' if 'r' in d else 'flat')
    for s in st:
        c.tag('stiff:' + s['kind'])
    if len(st) >= 2:
        c.tag('nstiff>=2')
    ns = 3 * d['m'] * d['n']

    def mats(stiffs):
        dd = dict(d); dd['stiffeners'] = stiffs
        bay = gen.build_bay(dd)
        for s in bay.bladestiff1ds:
            s.Fx = 0.37
        for s in bay.bladestiff2ds:
            s.flange.Nxx = -1.3
        for s in bay.tstiff2ds:
            s.base.Nxx = -0.7; s.flange.Nxx = 0.9
        out = bay_matrices(bay, N)
        return out, bay.get_size(), bay
    try:
        (Ka, Ga, Ma), size, bay_all = mats(st)
        (K0, G0, M0), s0, bay0 = mats([])
    except Exception as e:
        return c.reject('%s in bay: %s' % (type(e).__name__, str(e)[:100]))
    c.hit('bay')
    c.expect('bay size = skin + private blocks of the 2-D stiffeners', size == ns + sum(private_size(s) for s in st) and s0 == ns,
             '%d vs %d' % (size, ns + sum(private_size(s) for s in st)))
    # documented block order
    offs = {}
    off = ns
    for i, s in enumerate(st):
        if s['kind'] == 'blade2d':
            offs[i] = off; off += private_size(s)
    for i, s in enumerate(st):
        if s['kind'] == 't2d':
            offs[i] = off; off += private_size(s)

    def emb(A):
        out = np.zeros((size, size)); out[:A.shape[0], :A.shape[1]] = A
        return out
    sums = [np.zeros((size, size)) for _ in range(3)]
    scales = [np.abs(emb(K0)) + np.abs(Ka), np.abs(emb(G0)) + np.abs(Ga), np.abs(emb(M0)) + np.abs(Ma)]
    for i, s in enumerate(st):
        try:
            (Ki, Gi, Mi), si, bay_i = mats([s])
        except Exception as e:
            return c.reject('%s in single-stiffener bay: %s' % (type(e).__name__, str(e)[:100]))
        idx = np.arange(si)
        if si > ns:
            idx[ns:] = offs[i] + np.arange(si - ns)
        for k, (Ai, A0) in enumerate(((Ki, K0), (Gi, G0), (Mi, M0))):
            Ci = Ai.copy()
            Ci[:ns, :ns] -= A0
            sums[k][np.ix_(idx, idx)] += Ci
            sc = np.abs(Ai); sc[:ns, :ns] += np.abs(A0)
            scales[k][np.ix_(idx, idx)] += sc
            if k == 1 and s['kind'] == 'blade1d':
                from ..oracles import stiff1d
                o = stiff1d.contribution(d, bay_i, 1, gen.apply_flags)
                sck = o['S'] + 1e-6 * (o['S'].max() + np.abs(Ci).max()) + 1e-300
                c.judge('1-D blade geometric stiffness = Fx * int(w,x w,x) along the stiffener line', float((np.abs(Ci[:ns, :ns] - o['ref']) / sck).max()), 1e-9,
                        data={'Fx': 0.37, 'ys': s['ys']})
            if k != 1:
                nm = 'stiffness' if k == 0 else 'mass'
                c.expect('stiffener %s contribution symmetric' % nm, np.array_equal(Ci, Ci.T) or rel(Ci, Ci.T) < 1e-12)
                mech = None
                if s['kind'] == 'blade1d':
                    mech = judge_blade1d(c, d, s, bay_i, Ci[:ns, :ns], k)
                ev = np.linalg.eigvalsh((Ci + Ci.T) / 2)
                bound = 3e-8 * max(1.0, d['b'] / s['bb'] if 'bb' in s else 1.0) * float(np.linalg.norm(sc, 2))       # round-off of the penalty-joined blocks and of the strip integrals (sub-interval tables: grows with b / strip width)
                c.judge('stiffener %s contribution positive semi-definite' % nm, max(0.0, -ev.min()), bound, mechanism=mech,
                        data={'kind': s['kind'], 'min': ev.min(), 'max': ev.max()})
    for k, (nm, Aa, A0) in enumerate((('k0', Ka, K0), ('kG0', Ga, G0), ('kM', Ma, M0))):
        lhs = Aa - emb(A0)
        sc = scales[k] + 1e-6 * scales[k].max() + 1e-300
        c.judge('bay %s = skin + each stiffener contribution at its documented offset' % nm, float((np.abs(lhs - sums[k]) / sc).max()), 1e-11,
                data={'kinds_in_order': [s['kind'] for s in st]})
    c.nontrivial = True
    return c
