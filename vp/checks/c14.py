"""C14 - equivalent descriptions of one structure give identical matrices and
eigenvalues (all relations are between two real executions, O7)."""
import numpy as np

from .. import gen
from ..core import Case
from ..oracles import eig

RELS = ['cone0_vs_cyl', 'cyl_to_plate', 'w_only_block', 'numeric_vs_analytic', 'axis_exchange', 'similarity']


def plan(tier):
    n = 360 if tier == 'quick' else 6000
    return dict(n_cases=n, shards=16, min_nontrivial=n // 3,
                min_tags=dict({'rel:' + r: n // 12 for r in RELS}, **{'order:numeric_first_after_redefinition': n // 40}),
                watchdog_s=1800 if tier == 'quick' else 10000,
                rule='relation instances over random geometries, laminates (unsymmetric/offset), edge-flag patterns (mapped consistently under '
                     'the axis exchange), load triples, series orders and positive scale factors s, e, q; six relations in rotation: cone(alpha=0) vs '
                     'cylinder (k0,kG0,kM incl. sub-intervals), cylinder -> plate as r grows (bounded restatement: the difference is exactly C1/r + C2/r^2 entry-wise - fitted at two radii, verified at four more - and below 1e-4 at r = 1e7 b), '
                     'w-only plate vs w block of the full plate (k0,kG0,kM,kA,cA), numerically integrated kL at c=0 vs analytic k0, x<->y exchange '
                     '(eigenvalues), similarity scaling (eigenvalues); non-trivial = unsymmetric laminate or non-ss flags or sub-interval; '
                     'distinct = hash of the description',
                assumptions=['eigenvalues are taken with scipy.linalg.eigh on the active sub-matrices of the package matrices (the solvers are C05/C06\'s subject)',
                             'axis-exchange map: theta -> 90-theta, a<->b, m<->n, flag dEKx <-> d\'EKy with d\' = v,u,w, (Nxx,Nyy,Nxy) -> (Nyy,Nxx,Nxy), same offset'])


def rel(a, b, floor=1e-6):
    sc = np.abs(a) + np.abs(b)
    sc = sc + floor * (sc.max() if sc.size else 1.0) + 1e-300
    return float((np.abs(a - b) / sc).max())


def mats(d, N=None, what=('k0', 'kG0', 'kM'), auto=False):
    p = gen.build_panel(d, explicit_model=not auto)      # auto: the class picks the model from r / alphadeg itself
    if N is not None:
        p.Nxx, p.Nyy, p.Nxy = N
    out = {}
    out['k0'] = p.calc_k0(silent=True).toarray()
    if 'kG0' in what:
        out['kG0'] = p.calc_kG0(silent=True).toarray()
    if 'kM' in what:
        out['kM'] = p.calc_kM(silent=True).toarray()
    return out, p


def exchange(d, N):
    e = dict(d)
    e['a'], e['b'] = d['b'], d['a']
    e['m'], e['n'] = d['n'], d['m']
    lam = dict(d['lam'])
    lam['stack'] = [90. - t for t in lam['stack']]
    e['lam'] = lam
    swap = {'u': 'v', 'v': 'u', 'w': 'w'}
    fl = {}
    for k, v in d['flags'].items():
        if k.startswith('_'):
            fl[k] = v
        else:
            fl[swap[k[0]] + k[1:3] + ('y' if k[3] == 'x' else 'x')] = v
    e['flags'] = fl
    return e, [N[1], N[0], N[2]]


def scaled(d, s, e, q):
    x = dict(d)
    x['a'] = d['a'] * s; x['b'] = d['b'] * s
    if 'r' in d:
        x['r'] = d['r'] * s
    lam = dict(d['lam'])
    lam['plyts'] = [t * s for t in lam['plyts']]
    lam['offset'] = lam['offset'] * s
    lps = []
    for lp in lam['laminaprops']:
        lp = list(lp)
        for k in (0, 1, 3, 4, 5, 6):
            if k < len(lp):
                lp[k] *= e
        lps.append(lp)
    lam['laminaprops'] = lps
    x['lam'] = lam
    x['mu'] = d['mu'] * q
    return x


def run_case(rng, tier, idx):
    r = RELS[idx % len(RELS)]
    c = Case({'relation': r})
    c.tag('rel:' + r)
    N = [float(v) for v in rng.normal(size=3)]
    c.desc['N'] = N
    try:
        return globals()['rel_' + r](c, rng, tier, N)
    except (ValueError, RuntimeError, NotImplementedError, TypeError, np.linalg.LinAlgError) as e:
        return c.reject('%s in %s: %s' % (type(e).__name__, r, str(e)[:100]))


def restrained_flags(rng):
    """random flag pattern without rigid-body modes: translations fixed on the edges x=0 and y=0"""
    fl = gen.flags(rng, style=str(rng.choice(['ss', 'clamped', 'binary', 'mixed', 'real'])))
    for dname in 'uvw':
        fl[dname + '1tx'] = 0.0
        fl[dname + '1ty'] = 0.0
    return fl


def rel_cone0_vs_cyl(c, rng, tier, N):
    d = gen.panel_desc(rng, model='cpanel', mmax=7, place=False)
    c.desc['panel'] = d
    k = dict(d); k['model'] = 'kpanel'; k['alphadeg'] = 0.0
    A, _ = mats(d, N)
    B, _ = mats(k, N)
    amp = gen.subinterval_amplification(d)
    for nm in ('k0', 'kG0', 'kM'):
        # the conical kernel adds 41 sub-interval pieces (P(xi2)-P(xi1) in power form): cancellation noise ~1e-9
        c.judge('conical panel at zero semi-vertex angle equals the cylindrical panel: ' + nm, rel(A[nm], B[nm], floor=1e-4), 1e-8 * amp)
    c.nontrivial = True
    return c


def rel_cyl_to_plate(c, rng, tier, N):
    d = gen.panel_desc(rng, model='plate', mmax=6, place=False, sub=False)
    c.desc['panel'] = d
    P, _ = mats(d, N)
    if not np.abs(P['k0']).max() > 0:
        return c.reject('degenerate: no active amplitude')
    seq = []
    E = {}
    for dec in range(2, 8):
        cd = dict(d); cd['model'] = 'cpanel'; cd['r'] = d['b'] * 10.0 ** dec
        Cm, _ = mats(cd, N)
        E[dec] = Cm['k0'] - P['k0']
        seq.append(float(np.abs(E[dec]).max() / np.abs(P['k0']).max()))
        # kG0 and kM carry no curvature term at all
        c.judge('cylindrical kG0 independent of the radius', rel(Cm['kG0'], P['kG0']), 1e-12)
        c.judge('cylindrical kM independent of the radius', rel(Cm['kM'], P['kM']), 1e-12)
    c.info['diffs'] = seq
    # bounded restatement of "tends to the flat plate": the Donnell cylinder adds w/r to one membrane strain only, so
    # every entry of k0(r) - k0(plate) is exactly C1/r + C2/r^2.  C1, C2 are fitted at r/b = 1e2, 1e3 and the law is
    # verified at 1e4..1e7 (whichever of the two parts dominates there), and the difference must be small at 1e7.
    x2, x3 = 1e-2, 1e-3
    C2 = (E[2] / x2 - E[3] / x3) / (x2 - x3)
    C1 = E[2] / x2 - C2 * x2
    sc = np.abs(P['k0']).max()
    for dec in range(4, 8):
        x = 10.0 ** -dec
        c.judge('k0(r) - k0(plate) = C1/r + C2/r^2 (fitted at r/b = 1e2, 1e3; verified at 1e%d)' % dec,
                float(np.abs(E[dec] - (C1 * x + C2 * x * x)).max() / sc), 1e-12)
    c.judge('cylindrical panel of radius 1e7*b is within 1e-4 of the flat plate', seq[-1], 1e-4)
    c.nontrivial = True
    return c


def rel_w_only_block(c, rng, tier, N):
    d = gen.panel_desc(rng, model='plate', mmax=7, place=False)
    c.desc['panel'] = d
    wd = dict(d); wd['model'] = 'plate_w'
    A, pa = mats(d, N)
    B, pb = mats(wd, N)
    amp = gen.subinterval_amplification(d)
    for nm in ('k0', 'kG0', 'kM'):
        blk = A[nm][2::3, 2::3]
        c.judge('w-only plate equals the out-of-plane block of the full plate model: ' + nm, rel(blk, B[nm]), 1e-11 * amp)
    if 'y1' not in d:
        beta = float(rng.normal());
        for flow in ('x', 'y'):
            for p in (pa, pb):
                p.flow = flow; p.beta = beta; p.gamma = None
            kA = pa.calc_kA(silent=True).toarray()[2::3, 2::3]
            kB = pb.calc_kA(silent=True).toarray()
            c.judge('w-only plate equals the out-of-plane block: kA flow ' + flow, rel(kA, kB), 1e-12)
        pa.calc_cA(0.7, silent=True); pb.calc_cA(0.7, silent=True)
        c.judge('w-only plate equals the out-of-plane block: cA', rel(np.imag(pa.cA.toarray())[2::3, 2::3], np.imag(pb.cA.toarray())), 1e-12)
    c.nontrivial = True
    return c


def rel_numeric_vs_analytic(c, rng, tier, N):
    d = gen.panel_desc(rng, model=str(rng.choice(['plate', 'cpanel'])), mmax=6, place=False, sub=False)
    c.desc['panel'] = d
    # who is asked first: the analytic kernel on the same object (as in the non-linear drivers), the numerical one on a fresh object,
    # or the numerical one on an object that lived with another laminate before (stack / thicknesses / materials / offset reassigned)
    order = str(rng.choice(['analytic_first', 'numeric_first', 'numeric_first_after_redefinition']))
    c.tag('order:' + order)
    c.desc['order'] = order
    size = 3 * d['m'] * d['n']
    nx = max(d['m'], 4) + 2; ny = max(d['n'], 4) + 2
    if order == 'analytic_first':
        p = gen.build_panel(d)
        K = p.calc_k0(silent=True).toarray()
    else:
        K = gen.build_panel(d).calc_k0(silent=True).toarray()
        if order == 'numeric_first':
            p = gen.build_panel(d)
        else:
            d0 = dict(d)
            d0['lam'] = gen.laminate(rng, nmax=5, tscale=float(sum(d['lam']['plyts'])) / 3, offset_prob=0.5)
            c.desc['previous_laminate'] = d0['lam']
            p = gen.build_panel(d0)
            p.calc_k0(silent=True)
            if rng.random() < 0.5:
                p.calc_k0(silent=True, c=np.zeros(size), nx=nx, ny=ny)
            lam = d['lam']
            p.stack = list(lam['stack'])
            p.plyts = list(lam['plyts'])
            p.laminaprops = [tuple(x) for x in lam['laminaprops']]
            p.offset = lam['offset']
            p.force_orthotropic_laminate = bool(lam.get('force_ortho'))
    okw, okind = gen.order_kwargs(rng, p, nx, ny)
    c.tag('orders:' + okind)
    Kn = p.calc_k0(silent=True, c=np.zeros(size), **okw).toarray()
    c.judge('numerically integrated k0 at the undeformed state equals the analytic k0', rel(K, Kn, floor=1e-4), 1e-9)
    Kn2 = p.calc_k0(silent=True, c=np.zeros(size), nx=nx + 5, ny=ny + 3, NLgeom=True).toarray()
    c.judge('numerical k0 independent of the (exact) Gauss order and of NLgeom at c=0', rel(Kn, Kn2, floor=1e-4), 1e-9)
    c.nontrivial = True
    return c


def spectrum(K, G=None, M=None, k=10):
    if G is not None:
        act = eig.active_set(K)
        if act.size == 0:
            return np.zeros(0)
        wK = np.linalg.eigvalsh(K[np.ix_(act, act)])
        if wK.min() <= 1e-11 * wK.max():
            raise ValueError('K not positive definite on its active amplitudes')
        lam_pos, lam_neg, mu, _ = eig.ref_buckling(K, G)
        return lam_pos[:k]
    act = eig.active_set(M)
    wM = np.linalg.eigvalsh(M[np.ix_(act, act)])
    wK = np.linalg.eigvalsh(K[np.ix_(act, act)])
    if wM.min() <= 1e-12 * wM.max() or wK.min() <= 1e-11 * wK.max():
        raise ValueError('K or M not positive definite on the active amplitudes')
    w, _ = eig.ref_freq(K, M)
    return w[:k]


def rel_axis_exchange(c, rng, tier, N):
    fl = restrained_flags(rng)
    d = gen.panel_desc(rng, model='plate', mmax=7, place=False, sub=False, fl=fl)
    d['m'] = max(d['m'], 5); d['n'] = max(d['n'], 5)
    c.desc['panel'] = d
    e, Ne = exchange(d, N)
    A, _ = mats(d, N)
    B, _ = mats(e, Ne)
    la = spectrum(A['k0'], G=A['kG0']); lb_ = spectrum(B['k0'], G=B['kG0'])
    k = min(len(la), len(lb_))
    c.expect('same number of positive buckling multipliers', abs(len(la) - len(lb_)) == 0 or k >= 8)
    cond = np.linalg.cond(A['k0'][np.ix_(eig.active_set(A['k0']), eig.active_set(A['k0']))])
    tol = 1e-8 + 20 * 2.3e-16 * cond
    if k:
        c.judge('x<->y exchange leaves the buckling multipliers unchanged', float((np.abs(la[:k] - lb_[:k]) / np.abs(la[:k])).max() / max(1.0, float((la[:k] / la[0]).max()) * 1e-2)), tol)
    wa = spectrum(A['k0'], M=A['kM']); wb = spectrum(B['k0'], M=B['kM'])
    k = min(len(wa), len(wb))
    c.judge('x<->y exchange leaves the natural frequencies unchanged', float((np.abs(wa[:k] - wb[:k]) / wa[:k]).max()), tol)
    c.nontrivial = True
    return c


def rel_similarity(c, rng, tier, N):
    fl = restrained_flags(rng)
    d = gen.panel_desc(rng, model=str(rng.choice(['plate', 'cpanel', 'kpanel'])), mmax=6, place=False, sub=False, fl=fl)
    d['m'] = max(d['m'], 5); d['n'] = max(d['n'], 5)
    # other unit systems: millimetres / micrometres / kilometres, MPa / GPa, tonne-based densities ... (nothing in the plumbing may
    # depend on an absolute magnitude); half of the cases leave the model choice to the class
    if rng.random() < 0.5:
        s = float(10 ** rng.uniform(-1, 1)); e = float(10 ** rng.uniform(-2, 2)); q = float(10 ** rng.uniform(-2, 2))
    else:
        s = float(10 ** rng.uniform(-3, 4)); e = float(10 ** rng.uniform(-9, 3)); q = float(10 ** rng.uniform(-12, 3))
    auto = bool(rng.random() < 0.5) and d['model'] != 'plate_w'
    c.desc.update(panel=d, s=s, e=e, q=q, auto_model=auto)
    c.tag('auto_model' if auto else 'explicit_model')
    x = scaled(d, s, e, q)
    A, pa_ = mats(d, N, auto=auto)
    B, pb_ = mats(x, N, auto=auto)
    if auto:
        c.expect('the class picks the same model in both unit systems', pa_.model == pb_.model, '%s vs %s' % (pa_.model, pb_.model))
    la = spectrum(A['k0'], G=A['kG0']); lb_ = spectrum(B['k0'], G=B['kG0'])
    k = min(len(la), len(lb_))
    cond = np.linalg.cond(A['k0'][np.ix_(eig.active_set(A['k0']), eig.active_set(A['k0']))])
    tol = 1e-8 + 20 * 2.3e-16 * cond
    if k:
        c.judge('buckling line loads scale with e*s', float((np.abs(lb_[:k] - e * s * la[:k]) / np.abs(e * s * la[:k])).max() / max(1.0, float((la[:k] / la[0]).max()) * 1e-2)), tol)
    wa = spectrum(A['k0'], M=A['kM']); wb = spectrum(B['k0'], M=B['kM'])
    k = min(len(wa), len(wb))
    f = np.sqrt(e / q) / s
    c.judge('frequencies scale with sqrt(e/q)/s', float((np.abs(wb[:k] - f * wa[:k]) / (f * wa[:k])).max()), tol)
    c.nontrivial = True
    return c
