"""C05 - buckling solver returns true eigenpairs, smallest positive first.

Monitor: recording post-condition on compmech.analysis.lb (all bindings) and
observation of Panel.lb / ConeCyl.lb outputs; oracle O5 (dense LAPACK on the
active sub-matrices, backward-error residuals)."""
import numpy as np
import scipy.sparse as sp
import scipy.linalg

from .. import gen, monitors
from ..core import Case
from ..oracles import eig

RES_TOL = 1e-8     # backward error of a returned pair
VAL_TOL = 1e-7     # relative agreement with the reference multiplier


def plan(tier):
    n = 320 if tier == 'quick' else 12000
    return dict(suite_monitor=True, n_cases=n, shards=16, min_nontrivial=n // 3, min_hits={'lb': n // 2}, min_tags={'src:shell_method': n // 40, 'src:panel_method': n // 40, 'src:assembly_free': n // 40, 'src:bay_free': n // 80, 'load:reversal_supercritical': n // 40, 'k:spring_net': n // 20},
                watchdog_s=1500 if tier == 'quick' else 7200,
                rule='random symmetric pairs (K PD on a random active subset, others null; KG negative semidefinite / '
                     'indefinite / low-rank / banded, scaled sub-critical by a random margin 1.05..50), sizes 5..%d, '
                     '1..25 requested eigenvalues, both solver switches; plus matrices of generated Panels through '
                     'analysis.lb and Panel.lb, matrices of generated panel assemblies and stiffened bays through analysis.lb, and generated shells through ConeCyl.lb (its own copy of the solver; plain and combined load cases 1..3); non-trivial = the call returned and at least one positive reference '
                     'multiplier exists; distinct = hash of the generation parameters' % (150 if tier == 'quick' else 400),
                assumptions=['backward-error tolerance 1e-8, value agreement 1e-7 relative',
                             'ordering clause judged on the first min(returned pairs, #positive reference multipliers) values'])


def setup(tier):
    import compmech.analysis.linear_buckling as LBM
    monitors.install_recorder(LBM, 'lb')


def judge_pairs(c, K, G, ev, vecs, label, k_req, val_scale=1.0):
    Kd, Gd = eig.dense(K), eig.dense(G)
    n = Kd.shape[0]
    act = eig.active_set(Kd)
    if act.size == 0:
        c.reject('outside the domain: no active amplitudes')
        return np.zeros(0), act
    wK = np.linalg.eigvalsh(Kd[np.ix_(act, act)])
    if wK.min() <= 1e-12 * wK.max():
        c.reject('outside the domain: K is not positive definite on its active amplitudes (unrestrained model)')
        return np.zeros(0), act
    lam_pos, lam_neg, mu, act = eig.ref_buckling(Kd, Gd)
    c.info['condK'] = float(wK.max() / wK.min())
    # "solver precision": both paths work on the pencil KG v = mu K v (shift 1,
    # Cayley); mu carries an absolute error of a few eps, i.e. a relative one
    # of eps*||K||/||KG|| on the pencil's scale.  Tolerances scale with that.
    nK = np.abs(Kd).sum(axis=1).max()
    nG = np.abs(Gd).sum(axis=1).max()
    EPS = 2.3e-16
    res_tol = max(RES_TOL, 1e4 * EPS * nK / nG)      # 2.2e-6 against 2e3*eps*nK/nG = 1.8e-6 met in the thorough tier (penalty-joined assembly)
    if np.abs(Gd[np.ix_(act, act)]).max() == 0:
        c.reject('degenerate input: KG is null on every amplitude that carries stiffness (no multiplier exists)')
        return lam_pos, act
    npairs = min(len(ev), vecs.shape[1])
    null = np.setdiff1d(np.arange(n), act)
    c.expect(label + ' eigvecs shape', vecs.shape[0] == n, 'rows %d != %d' % (vecs.shape[0], n))
    worst = 0.0
    fwd = np.zeros(npairs)      # first-order forward bound of each returned multiplier: backward error x eigenvalue condition number
    for i in range(npairs):
        lam = ev[i]
        v = vecs[:, i]
        if lam != lam:
            c.violate(label + ' multiplier is NaN', 'eigvals[%d]=%r' % (i, lam))
            continue
        be = eig.backward_error(Kd, Gd, float(np.real(lam)), np.real(v))
        worst = max(worst, be)
        vr = np.real(v); lr = float(np.real(lam))
        if np.isfinite(lr) and lr != 0 and vr.any():
            m_ = abs(1.0 / lr)
            kap = (nG + m_ * nK) * float(vr @ vr) / (m_ * float(vr @ Kd @ vr) + 1e-300)
            fwd[i] = 2 * be * kap + 100 * n * EPS * kap
        c.judge(label + ' residual (K+lam*KG)v', be, res_tol, data={'i': i, 'lam': lam})
        if null.size:
            c.judge(label + ' zero on null dofs', np.abs(v[null]).max(), 0.0)
    # ordering clause: sub-critical and destabilising
    if lam_pos.size and lam_pos.min() > 1.0:
        nj = min(npairs, lam_pos.size, k_req)
        got = np.real(np.asarray(ev[:nj], dtype=complex))
        ref = lam_pos[:nj]
        # clustered reference values: compare as sorted sets with relative tolerance
        # forward accuracy of both the reference and the solver: eps*cond(K) on the largest |mu|
        vt = np.maximum(VAL_TOL, 1e4 * EPS * np.abs(ref)) + 100 * EPS * c.info['condK'] * np.abs(ref) / np.abs(ref).min()
        vt = vt * val_scale
        # "to solver precision" for a value: the pair passed the residual clause with backward error be; perturbation theory of
        # the definite pencil turns that into be * kappa_i on the multiplier (kappa up to 1e6 with penalty-joined assemblies)
        vt = np.maximum(vt, fwd[:nj])
        err = np.abs(got - ref) / np.abs(ref) / vt * VAL_TOL
        c.judge(label + ' smallest positive multipliers ascending', err.max() if nj else 0.0, VAL_TOL,
                data={'got': got, 'ref': ref})
        if nj >= 2:
            c.expect(label + ' ascending', bool(np.all(np.diff(got) >= -vt[1:] * np.abs(ref[1:]))), 'got %r' % (got,))
        c.info.setdefault('njudged', []).append(nj)
    return lam_pos, act


def random_pair(rng, tier):
    nmax = 150 if tier == 'quick' else 400
    n = int(rng.integers(5, 40)) if rng.random() < 0.6 else int(rng.integers(5, nmax + 1))
    if rng.random() < 0.35:
        na = n
    else:
        na = int(rng.integers(max(4, n // 3), n + 1))
    act = np.sort(rng.choice(n, na, replace=False))
    cond = 10 ** rng.uniform(1, 6)
    band = int(rng.integers(1, 6)) if rng.random() < 0.4 else None
    Ka = eig.random_spd(rng, na, cond, band)
    net = bool(rng.random() < 0.15)
    if net:
        Ka = eig.spring_net(rng, na)      # lumped spring network: columns of the unrestrained nodes sum to exactly zero
    kind = str(rng.choice(['nsd', 'indef', 'lowrank', 'banded', 'diag']))
    if kind == 'nsd':
        Ga = -eig.random_spd(rng, na, 10 ** rng.uniform(1, 4))
    elif kind == 'indef':
        B = rng.normal(size=(na, na))
        Ga = (B + B.T) / 2
    elif kind == 'lowrank':
        r = max(1, int(rng.integers(1, max(2, na // 2))))
        B = rng.normal(size=(na, r))
        Ga = -(B @ B.T)
    elif kind == 'banded':
        Ga = -eig.random_spd(rng, na, 1e3, band=int(rng.integers(1, 4)))
    else:
        Ga = -np.diag(rng.uniform(0.1, 10, na) * (rng.random(na) < 0.7))
        if not Ga.any():
            Ga[0, 0] = -1.0
    lam_pos, _, _, _ = eig.ref_buckling(Ka, Ga)
    margin = float(rng.uniform(1.05, 50))
    if lam_pos.size:
        Ga = Ga * (lam_pos.min() / margin)
    us = gen.unit_scale(rng)
    if net:
        us = float(2.0 ** rng.integers(-20, 21)) if rng.random() < 0.3 else 1.0
    K = sp.csr_matrix(eig.embed(Ka, n, act) * us)
    G = sp.csr_matrix(eig.embed(Ga, n, act) * us)
    desc = dict(src='random', n=n, n_active=na, cond=cond, band=band, kg_kind=kind, margin=margin, unit_scale=us, spring_net=net)
    return K, G, desc, na


def panel_pair(rng, tier):
    fl = gen.flags(rng, style=str(rng.choice(['ss', 'clamped', 'binary', 'mixed'])))
    d = gen.panel_desc(rng, model=str(rng.choice(['plate', 'cpanel', 'plate_w', 'kpanel'])), mmax=7, sub=False, place=False, fl=fl)
    d['m'] = max(d['m'], 6)      # clamped edges switch the first four functions off: fewer terms leave (almost) no free amplitude
    d['n'] = max(d['n'], 6)
    p = gen.build_panel(d)
    load = [float(x) for x in rng.choice([-1., 0., 1., -0.5], 3)]
    if load[0] >= 0 and load[1] >= 0:
        load[int(rng.integers(0, 2))] = -1.0
    p.Nxx, p.Nyy, p.Nxy = load
    desc = dict(src='panel', panel={k: v for k, v in d.items()}, load=load)
    return p, desc


def case_shell(rng, tier):
    """ConeCyl.lb: the shell's own copy of the solver (axial compression, optional combined load cases)"""
    d = gen.shell_desc(rng, mmax=4 if tier == 'quick' else 6, nmax=4)
    k = int(rng.integers(1, 8))
    clc = [None, None, 1, 2, 3][int(rng.integers(0, 5))]
    Fc = float(10 ** rng.uniform(0, 2))
    P = float(rng.choice([0.0, -1.0, 1.0]) * 10 ** rng.uniform(-3, -1)) if clc else 0.0
    T = float(rng.choice([0.0, -1.0, 1.0]) * 10 ** rng.uniform(-1, 1)) if clc else 0.0
    if clc == 3 and T == 0.0:
        T = 1.0
    if clc:
        # the fixed load of a combined case at 20..60% of its own critical value, so that it matters in M = k0 + kG0_fixed
        try:
            cu_ = gen.build_shell(d)
            cu_.Fc = 1.0; cu_.P = 1.0; cu_.T = 1.0
            cu_._calc_linear_matrices(combined_load_case=clc, silent=True)
            num0_ = __import__('compmech.conecyl.modelDB', fromlist=['db']).db[d['model']]['num0']
            Gfix = eig.dense({1: cu_.kG0_T, 2: cu_.kG0_P, 3: cu_.kG0_Fc}[clc])[num0_:, num0_:]
            lp, ln, _, _ = eig.ref_buckling(eig.dense(cu_.k0)[num0_:, num0_:], Gfix)
            frac = float(rng.uniform(0.2, 0.6))
            crit = float(lp.min()) if lp.size else (-float(np.abs(ln).min()) if ln.size else 0.0)
            if clc == 1:
                T = frac * crit
            elif clc == 2:
                P = frac * crit
            else:
                Fc = frac * crit; T = float(rng.choice([-1., 1.]) * 10 ** rng.uniform(-1, 1))
        except Exception:
            pass
    desc = dict(src='shell', shell=d, k=k, combined_load_case=clc, Fc=Fc, P=P, T=T)
    c = Case(desc)
    c.tag('src:shell_method', 'model:' + d['model'], 'geom:cone' if d['alphadeg'] else 'geom:cylinder', 'clc:%s' % clc)
    import warnings
    try:
        cc = gen.build_shell(d)
        cc.Fc = Fc; cc.P = P; cc.T = T
        cc.num_eigvalues = k
        with warnings.catch_warnings():
            warnings.simplefilter('ignore')
            cc.lb(combined_load_case=clc)
    except Exception as e:
        return c.reject('%s in ConeCyl.lb: %s' % (type(e).__name__, str(e)[:100]))
    c.hit('ConeCyl.lb')
    num0 = __import__('compmech.conecyl.modelDB', fromlist=['db']).db[d['model']]['num0']
    k0 = eig.dense(cc.k0)
    if clc == 1:
        K, G = k0 + eig.dense(cc.kG0_T), eig.dense(cc.kG0_Fc)
    elif clc == 2:
        K, G = k0 + eig.dense(cc.kG0_P), eig.dense(cc.kG0_Fc)
    elif clc == 3:
        K, G = k0 + eig.dense(cc.kG0_Fc), eig.dense(cc.kG0_T)
    else:
        K, G = k0, eig.dense(cc.kG0)
    K = K[num0:, num0:]; G = G[num0:, num0:]
    ev = np.asarray(cc.eigvals); vecs = np.asarray(cc.eigvecs)
    c.expect('shell_method modes carry zeros on the base-function amplitudes', not vecs[:num0].any())
    # value tolerance 1e-6: the shell matrices are badly scaled (membrane vs bending amplitudes) and the multipliers of the
    # torsion cases come in close pairs; calibrated on the unchanged tree (worst 2.5e-7 with the residual clause at 1e-4 of
    # its tolerance) - a missing or misplaced multiplier is an O(1) difference
    lam_pos, act = judge_pairs(c, K, G, ev, vecs[num0:], 'shell_method', k, val_scale=10.0)
    c.nontrivial = lam_pos.size > 0
    return c


def case_structure(rng, tier, which):
    """matrices of a generated panel assembly / stiffened bay through analysis.lb (what their callers do)"""
    from compmech.analysis import lb
    sparse = bool(rng.random() < 0.5)
    k = int(rng.integers(1, 8))
    try:
        K, G, desc = gen.structure_matrices(rng, which, 'kG0')
    except Exception as e:
        c = Case({'src': which})
        return c.reject('%s building %s: %s' % (type(e).__name__, which, str(e)[:100]))
    k = min(k, max(1, len(gen.active_dofs(G)) - 2))      # the solvers refuse k >= number of amplitudes KG acts on
    us = gen.unit_scale(rng)
    K = K * us; G = G * us
    desc.update(k=k, sparse_solver=sparse, unit_scale=us)
    c = Case(desc)
    c.tag('src:%s_free' % which, 'sparse' if sparse else 'dense')
    monitors.drain('lb')
    try:
        lb(K, G, tol=0, sparse_solver=sparse, silent=True, num_eigvalues=k)
    except Exception as e:
        return c.reject('%s in lb on %s matrices: %s' % (type(e).__name__, which, str(e)[:100]))
    obs = monitors.drain('lb')
    c.hit('lb', len(obs))
    ev, vecs = obs[-1]['result']
    lam_pos, act = judge_pairs(c, K, G, ev, vecs, which + '_free', k)
    c.nontrivial = lam_pos.size > 0
    return c


def run_case(rng, tier, idx):
    from compmech.analysis import lb
    # 70% random pairs; the package sources take turns (deterministic in the case index, so every source is covered)
    mode = 'random' if idx % 10 < 7 else ['panel_free', 'panel_method', 'shell_method', 'assembly_free', 'bay_free'][(idx // 10 * 3 + idx % 10 - 7) % 5]
    if idx % 10 == 6:
        mode = 'panel_method'      # 64% random pairs, 10% + 6% the panels' own copy of the solver
    if mode == 'shell_method':
        return case_shell(rng, tier)
    if mode in ('assembly_free', 'bay_free'):
        return case_structure(rng, tier, mode.split('_')[0])
    sparse = bool(rng.random() < 0.5)
    if mode == 'random':
        K, G, desc, na = random_pair(rng, tier)
        k = int(rng.integers(1, 26))
        if rng.random() < 0.93:
            k = min(k, max(1, na - 2))
        desc.update(k=k, sparse_solver=sparse)
        c = Case(desc)
        c.tag('src:random', 'kg:' + desc['kg_kind'], 'sparse' if sparse else 'dense',
              'nullcols' if na < desc['n'] else 'full')
        if desc.get('spring_net'):
            c.tag('k:spring_net')
        K0, G0 = K.copy(), G.copy()
        monitors.drain('lb')
        try:
            lb(K, G, tol=0, sparse_solver=sparse, silent=True, num_eigvalues=k)
        except Exception as e:
            if k > na - 2:
                c.tag('rejected:k>n_active-2')
            return c.reject('%s in lb (k=%d, n_active=%d): %s' % (type(e).__name__, k, na, str(e)[:80]))
        obs = monitors.drain('lb')
        c.hit('lb', len(obs))
        if not obs:
            c.violate('monitor', 'lb returned but the monitor saw no call')
            return c
        ev, vecs = obs[-1]['result']
        if k > na - 2:
            c.tag('accepted:k>n_active-2')
        lam_pos, act = judge_pairs(c, K0, G0, ev, vecs, 'lb', k)
        c.nontrivial = lam_pos.size > 0
        # inputs not modified
        c.expect('inputs unchanged', (abs(K - K0).sum() == 0) and (abs(G - G0).sum() == 0))
        # scaling law: second real execution with s*KG (still sub-critical)
        if lam_pos.size and lam_pos.min() > 1.0:
            s = float(rng.uniform(0.05, 0.98 * min(lam_pos.min() / 1.02, 20)))
            try:
                ev2, vecs2 = lb(K, G * s, tol=0, sparse_solver=sparse, silent=True, num_eigvalues=k)
                nj = min(len(ev), len(ev2), lam_pos.size, vecs.shape[1], k)
                e1 = np.real(np.asarray(ev[:nj])); e2 = np.real(np.asarray(ev2[:nj]))
                c.judge('scaling: lam(s*KG) = lam/s', (np.abs(e2 * s - e1) / np.abs(e1) / np.maximum(1, (1e4 * 2.3e-16 * np.abs(e1) / s + 100 * 2.3e-16 * c.info['condK'] * np.abs(e1) / np.abs(e1).min()) / VAL_TOL)).max() if nj else 0., VAL_TOL)
            except Exception as e:
                c.info['scaling_rejected'] = repr(e)[:100]
            # sparse vs dense agreement
            try:
                ev3, vecs3 = lb(K, G, tol=0, sparse_solver=not sparse, silent=True, num_eigvalues=k)
                nj = min(len(ev), len(ev3), lam_pos.size, vecs.shape[1], vecs3.shape[1], k)
                e1 = np.real(np.asarray(ev[:nj])); e3 = np.real(np.asarray(ev3[:nj]))
                c.judge('sparse and dense paths agree', (np.abs(e3 - e1) / np.abs(e1) / np.maximum(1, (1e4 * 2.3e-16 * np.abs(e1) + 100 * 2.3e-16 * c.info['condK'] * np.abs(e1) / np.abs(e1).min()) / VAL_TOL)).max() if nj else 0., VAL_TOL)
                judge_pairs(c, K0, G0, ev3, vecs3, 'lb(other path)', k)
            except Exception as e:
                c.info['otherpath_rejected'] = repr(e)[:100]
            monitors.drain('lb')
        return c
    # package matrices
    p, desc = panel_pair(rng, tier)
    if mode != 'panel_free' and rng.random() < 0.6:
        # a sub-critical reference load whose reversal is super-critical (mild compression along one axis, strong tension along the
        # other, magnitudes tied to the panel's own critical loads): negative multipliers inside (-1, 0) next to positive ones > 1
        try:
            ax = int(rng.integers(0, 2))
            N = [0.0, 0.0, float(rng.choice([0.0, 0.0, 0.3, -0.3]))]
            N[ax] = -1.0; N[1 - ax] = float(10 ** rng.uniform(0.3, 2))
            K_ = p.calc_k0(silent=True).toarray()
            act_ = eig.active_set(K_)
            for attempt in range(3):
                p.Nxx, p.Nyy, p.Nxy = N
                G_ = p.calc_kG0(silent=True).toarray()
                mu = scipy.linalg.eigh(-G_[np.ix_(act_, act_)], K_[np.ix_(act_, act_)], eigvals_only=True)
                # both signs really present (not round-off of the null part)
                if mu.max() > 1e-6 * np.abs(mu).max() and mu.min() < -1e-6 * np.abs(mu).max():
                    lpos, lneg = 1.0 / mu.max(), -1.0 / mu.min()
                    ratio = lneg / lpos
                    if ratio < 0.7:
                        u = float(rng.uniform(1.2, min(8.0, 0.95 / ratio)))
                        s_ = lpos / u
                        N = [float(x * s_) for x in N]
                        p.Nxx, p.Nyy, p.Nxy = N
                        desc['load'] = N
                        desc['reversal'] = {'smallest_positive': u, 'negative_closest_to_zero': -ratio * u}
                        break
                N[1 - ax] *= 10.0
            else:
                p.Nxx, p.Nyy, p.Nxy = desc['load']
        except Exception as e:
            desc['reversal_rejected'] = repr(e)[:100]
    k = int(rng.integers(1, 8))
    desc.update(k=k, sparse_solver=sparse, mode=mode)
    c = Case(desc)
    c.tag('src:' + mode, 'model:' + desc['panel']['model'], 'sparse' if sparse else 'dense')
    if 'reversal' in desc:
        c.tag('load:reversal_supercritical')
    try:
        if mode == 'panel_free':
            us = gen.unit_scale(rng)
            c.desc['unit_scale'] = us
            K = p.calc_k0(silent=True) * us
            G = p.calc_kG0(silent=True) * us
            na = len(gen.active_dofs(K))
            k = min(k, max(1, na - 2))
            monitors.drain('lb')
            lb(K, G, tol=0, sparse_solver=sparse, silent=True, num_eigvalues=k)
            obs = monitors.drain('lb')
            c.hit('lb', len(obs))
            ev, vecs = obs[-1]['result']
        else:
            p.num_eigvalues = k
            K = p.calc_k0(silent=True)
            na = len(gen.active_dofs(K))
            if k > na - 2:
                p.num_eigvalues = k = max(1, na - 2)
            p.lb(silent=True, sparse_solver=sparse)
            c.hit('Panel.lb')
            ev, vecs = p.eigvals, p.eigvecs
            K, G = p.k0, p.kG0
    except Exception as e:
        return c.reject('%s in %s: %s' % (type(e).__name__, mode, str(e)[:100]))
    lam_pos, act = judge_pairs(c, K, G, ev, vecs, mode, k)
    c.nontrivial = lam_pos.size > 0
    # the same Panel object after a redefinition (a dimension, an edge flag, the laminate offset), analysed again: the pairs
    # returned now belong to the matrices of the panel as defined now (built here on a fresh object)
    if mode == 'panel_method' and rng.random() < 0.4:
        c.tag('clause:redefined')
        d = desc['panel']
        d2 = dict(d); d2['flags'] = dict(d['flags']); d2['lam'] = dict(d['lam'])
        what = str(rng.choice(['a', 'b', 'flag', 'offset']))
        if what in ('a', 'b'):
            d2[what] = d[what] * float(rng.uniform(0.8, 1.25))
            setattr(p, what, d2[what])
        elif what == 'flag':
            k_ = 'w%sr%s' % (str(rng.choice(['1', '2'])), str(rng.choice(['x', 'y'])))
            d2['flags'][k_] = 0.0 if d['flags'].get(k_, 1.0) else 1.0
            setattr(p, k_, d2['flags'][k_])
        else:
            d2['lam']['offset'] = float(d['lam']['offset'] + rng.uniform(-0.5, 0.5) * sum(d['lam']['plyts']))
            p.offset = d2['lam']['offset']
        c.desc['redefinition'] = what
        try:
            q = gen.build_panel(d2)
            q.Nxx, q.Nyy, q.Nxy = p.Nxx, p.Nyy, p.Nxy
            K2 = q.calc_k0(silent=True); G2 = q.calc_kG0(silent=True)
            p.lb(silent=True, sparse_solver=sparse)
            judge_pairs(c, K2, G2, p.eigvals, p.eigvecs, 'panel_method after redefinition (%s):' % what, k)
        except Exception as e:
            c.info['redefinition_rejected'] = '%s: %s' % (type(e).__name__, str(e)[:100])
    return c
