"""O2 for complete shells: energy Hessian by quadrature of ConeCyl's own
recovered linear strain field (odd symmetrisation) plus the elastic edge
restraint energy on the two edge circles."""
import numpy as np

from . import clt, energy


def laminate_F(d, fsdt_K=5 / 6.):
    F, S = _laminate_F(d, fsdt_K)
    f = d.get('F_reuse_factor')
    if f:
        # the shell was handed this matrix directly (ConeCyl.F_reuse): the stack's own matrix times a factor, so that a
        # code path falling back to the stack cannot go unnoticed
        return F * f, S * f
    return F, S


def _laminate_F(d, fsdt_K=5 / 6.):
    if 'stack' not in d:
        E, nu, h = d['E11'], d['nu'], d['h']
        G = E / (2 * (1 + nu))
        A = np.array([[E * h / (1 - nu ** 2), nu * E * h / (1 - nu ** 2), 0], [nu * E * h / (1 - nu ** 2), E * h / (1 - nu ** 2), 0], [0, 0, G * h]])
        Dm = A * h ** 2 / 12.
        F = np.zeros((6, 6)); F[:3, :3] = A; F[3:, 3:] = Dm
        return F, np.abs(F)
    n = len(d['stack'])
    F, S = clt.ABD6(d['stack'], [d['plyt']] * n, [d['laminaprop']] * n, 0., force_ortho=bool(d.get('force_ortho')))
    if 'fsdt' in d['model']:
        o = clt.abd(d['stack'], [d['plyt']] * n, [d['laminaprop']] * n, 0.)
        F8 = np.zeros((8, 8)); S8 = np.zeros((8, 8))
        F8[:6, :6] = F; S8[:6, :6] = S
        # package ordering of the shear block: ABDE[6:, 6:] = [[Q44, Q45], [Q45, Q55]] integrated, times K
        F8[6:, 6:] = o['E'] * fsdt_K; S8[6:, 6:] = o['SE'] * fsdt_K
        if d.get('force_ortho'):
            F8[6, 7] = F8[7, 6] = 0.0
        return F8, S8
    return F, S


def surface_grid(cc, nxg, nth):
    g, w = np.polynomial.legendre.leggauss(nxg)
    xs = (g + 1) * cc.L / 2.
    wx = w * cc.L / 2.
    th = np.arange(nth) * 2 * np.pi / nth
    wt = np.full(nth, 2 * np.pi / nth)
    X, T = np.meshgrid(xs, th, indexing='ij')
    r = cc.r2 + X * cc.sina
    W = np.outer(wx, wt) * r
    return X.ravel().copy(), T.ravel().copy(), W.ravel().copy()


def strain_basis(cc, xs, ts, idx=None):
    size = cc.get_size()
    idx = range(size) if idx is None else idx
    B = None
    e = np.zeros(size)
    for j, k in enumerate(idx):
        e[:] = 0.; e[k] = 1.
        ep = np.asarray(cc.strain(e.copy(), xs=xs, ts=ts))
        e[k] = -1.
        em = np.asarray(cc.strain(e.copy(), xs=xs, ts=ts))
        lin = (ep - em) / 2.          # [npts, e_num]
        if B is None:
            B = np.zeros((lin.shape[1], lin.shape[0], len(list(idx)) if not hasattr(idx, '__len__') else len(idx)))
        B[:, :, j] = lin.T
    return B


def disp_basis(cc, xs, ts):
    size = cc.get_size()
    U = np.zeros((5, xs.size, size))
    e = np.zeros(size)
    for k in range(size):
        e[:] = 0.; e[k] = 1.
        out = cc.uvw(e.copy(), xs=xs, ts=ts)
        for a in range(5):
            U[a, :, k] = np.asarray(out[a]).ravel()
    return U


def edge_energy(cc, d, springs):
    """Hessian of sum_edges sum_q k_q * 1/2 int q^2 r dtheta"""
    size = cc.get_size()
    nth = 2 * cc.n2 + 5
    th = np.arange(nth) * 2 * np.pi / nth
    K = np.zeros((size, size)); S = np.zeros((size, size))
    comp = {'ku': 0, 'kv': 1, 'kw': 2, 'kphix': 3, 'kphit': 4}
    for edge, x, r in (('Top', 0.0, cc.r2), ('Bot', cc.L, cc.r1)):
        U = disp_basis(cc, np.full(nth, x), th)
        w = np.full(nth, 2 * np.pi / nth) * r
        for nm in springs:
            k = getattr(cc, nm + edge)
            if k == 0:
                continue
            q = U[comp[nm]:comp[nm] + 1]
            Kq, Sq = energy.quad_form(q, np.array([[k]]), w)
            K += Kq; S += Sq
    return K, S


def k0_oracle(cc, d, springs, nxg=None):
    nth = 2 * cc.n2 + 3
    if nxg is None:
        nxg = 6 * max(cc.m1, cc.m2) + 12
    xs, ts, w = surface_grid(cc, nxg, nth)
    B = strain_basis(cc, xs, ts)
    F, SF = laminate_F(d, cc.K)
    K, S = energy.quad_form(B, F, w)
    _, S2 = energy.quad_form(B, SF, w)
    Ke, Se = edge_energy(cc, d, springs)
    return K + Ke, np.maximum(S, S2) + Se, K
