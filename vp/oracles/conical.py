"""O2 for conical panels: ctypes basis + conical Donnell table, radius frozen
at the mid-point of each of the kernel's 41 meridian sections (the
approximation the property exempts)."""
import numpy as np

from . import clt, energy, series

NSEC = 41


def _alpha(p):
    """semi-vertex angle from the user-level attribute (degrees), not from the derived `alpharad` a method under test may have
    left on the object"""
    return np.deg2rad(p.alphadeg if getattr(p, 'alphadeg', None) is not None else 0.0)


def section_grid(p, ngx, ngy):
    a, bbot, rbot = p.a, p.b, p.r
    sina = np.sin(_alpha(p))
    gx, wx = np.polynomial.legendre.leggauss(ngx)
    gy, wy = np.polynomial.legendre.leggauss(ngy)
    if p.y1 is not None and p.y2 is not None:
        e1 = 2 * p.y1 / bbot - 1.
        e2 = 2 * p.y2 / bbot - 1.
    else:
        e1, e2 = -1., 1.
    etas = e1 + (gy + 1) * (e2 - e1) / 2.
    wet = wy * (e2 - e1) / 2.
    for sec in range(NSEC):
        x1 = a * sec / NSEC
        x2 = a * (sec + 1) / NSEC
        r = rbot - sina * (x1 + x2) / 2.
        b = r * bbot / rbot
        xs = x1 + (gx + 1) * (x2 - x1) / 2.
        xis = 2 * xs / a - 1.
        XI, ET = np.meshgrid(xis, etas, indexing='ij')
        W = np.outer(wx * (x2 - x1) / 2., wet * b / 2.)
        yield r, b, XI.ravel(), ET.ravel(), W.ravel()


def k0_oracle(p, d):
    lam = d['lam']
    F, SF = clt.ABD6(lam['stack'], lam['plyts'], lam['laminaprops'], lam['offset'], force_ortho=bool(lam.get('force_ortho')))
    ngx = max(p.m, 4) + 1
    ngy = max(p.n, 4) + 2
    size = 3 * p.m * p.n
    K = np.zeros((size, size))
    S = np.zeros((size, size))
    sina, cosa = np.sin(_alpha(p)), np.cos(_alpha(p))
    for r, b, xi, et, w in section_grid(p, ngx, ngy):
        B = series.donnell_B(p, xi, et, p.a, b, r=r, num=3, sina=sina, cosa=cosa)
        k, s = energy.quad_form(B, F, w)
        _, s2 = energy.quad_form(B, SF, w)
        K += k
        S += np.maximum(s, s2)
    return K, S


def kG0_oracle(p, Nxx, Nyy, Nxy):
    ngx = max(p.m, 4) + 1
    ngy = max(p.n, 4) + 2
    size = 3 * p.m * p.n
    K = np.zeros((size, size))
    S = np.zeros((size, size))
    N = np.array([[Nxx, Nxy], [Nxy, Nyy]], dtype=float)
    for r, b, xi, et, w in section_grid(p, ngx, ngy):
        U = series.disp_U(p, xi, et, p.a, b, num=3)
        G = U[3:5]     # (-w,x, -w,y): signs cancel in the quadratic form
        k, s = energy.quad_form(G, N, w)
        K += k
        S += s
    return K, S


def kM_oracle(p, mu, h, doff):
    ngx = max(p.m, 4) + 1
    ngy = max(p.n, 4) + 2
    size = 3 * p.m * p.n
    K = np.zeros((size, size))
    S = np.zeros((size, size))
    for r, b, xi, et, w in section_grid(p, ngx, ngy):
        U = series.disp_U(p, xi, et, p.a, b, num=3)
        k, s = energy.quad_form(U, inertia5(mu, h, doff), w)
        K += k
        S += s
    return K, S


def inertia5(mu, h, d):
    """kinetic-energy form for (u, v, w, phix, phiy) with U = u + z*phix, z in [d-h/2, d+h/2]"""
    I0 = mu * h
    I1 = mu * h * d
    I2 = mu * h * (d * d + h * h / 12.)
    M = np.zeros((5, 5))
    M[0, 0] = M[1, 1] = M[2, 2] = I0
    M[0, 3] = M[3, 0] = I1
    M[1, 4] = M[4, 1] = I1
    M[3, 3] = M[4, 4] = I2
    return M
