"""Line-energy oracle for the 1-D blade stiffener (BladeStiff1D): stand-alone
base panel (sub-interval, offset laminate) + strain / kinetic energy of the
flange along the line y = ys, built from the skin's recovered fields and the
stiffener's own section constants (E1, F1, S1, Jxx, dbf)."""
import numpy as np

from . import energy


def contribution(d, bay_i, k, apply_flags):
    """k = 0 stiffness, 2 mass.  Returns dict(ref, S, alt (mass with the coupling doubled) or None,
    c3_indefinite (stiffness section constants not PSD))"""
    from compmech.panel import Panel
    so = bay_i.bladestiff1ds[0]
    skin = bay_i.panels[0]
    ns = 3 * d['m'] * d['n']
    ref = np.zeros((ns, ns)); S = np.zeros((ns, ns)); alt = None
    h = 0.5 * sum(so.panel1.plyts) + 0.5 * sum(so.panel2.plyts)
    if k == 1:
        # geometric stiffness: the class puts the whole axial force Fx into the flange (documented in calc_kG0) - a beam at y = ys
        # with pre-stress work Fx/2 * int w,x^2 dx; the base carries none
        if so.fstack is not None:
            ng = max(d['m'], 4) + 3
            g, w = np.polynomial.legendre.leggauss(ng)
            xs = (g + 1) * d['a'] / 2.; ys = np.full(ng, so.ys); ww = w * d['a'] / 2.
            skin.calc_k0(silent=True)
            G = energy.disp_basis(skin, xs, ys)[3:4]          # phix = -w,x (sign cancels)
            Fx = so.Fx if so.Fx is not None else 0.
            Kf, Sf = energy.quad_form(G, np.array([[Fx]]), ww)
            ref += Kf; S += np.abs(Sf)
        return dict(ref=ref, S=S, alt=None, c3_indefinite=False)
    if so.base is not None:
        hb = sum(so.bplyts)
        q = Panel(a=d['a'], b=d['b'], r=d.get('r'), m=d['m'], n=d['n'], stack=list(so.bstack), plyts=list(so.bplyts),
                  laminaprops=list(so.blaminaprops), mu=so.mu, offset=(-h / 2. - hb / 2.), y1=so.ys - so.bb / 2., y2=so.ys + so.bb / 2.)
        apply_flags(q, d['flags'])
        B = (q.calc_k0(silent=True) if k == 0 else q.calc_kM(silent=True)).toarray()
        ref += B; S += np.abs(B)
    c3_indef = False
    if so.fstack is not None:
        ng = max(d['m'], 4) + 3
        g, w = np.polynomial.legendre.leggauss(ng)
        xs = (g + 1) * d['a'] / 2.; ys = np.full(ng, so.ys); ww = w * d['a'] / 2.
        skin.calc_k0(silent=True)
        df = so.dbf
        if k == 0:
            Bs = energy.strain_basis(skin, xs, ys)
            L = np.array([Bs[0] - df * Bs[3], -Bs[5] / 2., -Bs[3]])          # e = u,x + df*w,xx ; w,xy ; w,xx
            C3 = so.bf * np.array([[so.E1, -so.S1, 0.], [-so.S1, so.Jxx, 0.], [0., 0., so.F1]])
            Kf, Sf = energy.quad_form(L, C3, ww)
            ref += Kf; S += Sf
            c3_indef = bool(np.linalg.eigvalsh(C3).min() < 0)
        else:
            U = energy.disp_basis(skin, xs, ys)
            A = so.mu * so.bf * so.hf
            rot = df * df + so.bf ** 2 / 12.

            def J5(cpl):
                J = np.diag([1., 1., 1., rot, rot]) * A
                J[0, 3] = J[3, 0] = -cpl * A       # flange on the -z side: U = u + df*w,x = u - df*phix
                J[1, 4] = J[4, 1] = -cpl * A
                return J
            Mf, Sf = energy.quad_form(U, J5(df), ww)
            Md, _ = energy.quad_form(U, J5(2 * df), ww)
            alt = ref + Md
            ref = ref + Mf; S = S + Sf
    return dict(ref=ref, S=S, alt=alt, c3_indefinite=c3_indef)
