"""O3 - exact Bardell algebra with fractions.Fraction.

Polynomials are lists of Fraction coefficients, index = power of xi.
Definition: theory/func/bardell/bardell.py (four Hermite cubics, then
sum_n (-1)^n (2r-2n-7)!! / (2^n n! (r-2n-1)!) xi^(r-2n-1), r = 5.. ; index i = r-1)."""
from fractions import Fraction as Fr
from functools import lru_cache
from math import factorial

NMAX = 30


def dfact(n):
    if n <= 0:
        return 1          # (-1)!! = 0!! = 1 ; only -1 occurs (r = 5, n = 2)
    r = 1
    while n > 1:
        r *= n
        n -= 2
    return r


@lru_cache(maxsize=None)
def f(i):
    """polynomial of function i with unit flag"""
    if i == 0:
        return (Fr(1, 2), Fr(-3, 4), Fr(0), Fr(1, 4))
    if i == 1:
        return (Fr(1, 8), Fr(-1, 8), Fr(-1, 8), Fr(1, 8))
    if i == 2:
        return (Fr(1, 2), Fr(3, 4), Fr(0), Fr(-1, 4))
    if i == 3:
        return (Fr(-1, 8), Fr(-1, 8), Fr(1, 8), Fr(1, 8))
    r = i + 1
    c = [Fr(0)] * (r)
    for n in range(0, r // 2 + 1):
        e = r - 2 * n - 1
        if e < 0:
            continue
        c[e] += Fr((-1) ** n * dfact(2 * r - 2 * n - 7), 2 ** n * factorial(n) * factorial(e))
    return tuple(c)


def deriv(p, k=1):
    p = list(p)
    for _ in range(k):
        p = [p[j] * j for j in range(1, len(p))] or [Fr(0)]
    return tuple(p)


def mul(p, q):
    r = [Fr(0)] * (len(p) + len(q) - 1)
    for a, x in enumerate(p):
        if x == 0:
            continue
        for b, y in enumerate(q):
            if y != 0:
                r[a + b] += x * y
    return tuple(r)


def antider(p):
    return tuple([Fr(0)] + [c / (k + 1) for k, c in enumerate(p)])


def ev(p, x):
    x = Fr(x)
    r = Fr(0)
    for c in reversed(p):
        r = r * x + c
    return r


def abs_ev(p, x):
    """sum |c_k| |x|^k  (float)"""
    ax = abs(float(x))
    return sum(abs(float(c)) * ax ** k for k, c in enumerate(p))


def compose_affine(p, c0, c1):
    """p(c0 + c1*xi) as polynomial in xi"""
    c0, c1 = Fr(c0), Fr(c1)
    res = [Fr(0)]
    lin = (c0, c1)
    # Horner in polynomial ring
    for c in reversed(p):
        res = list(mul(tuple(res), lin))
        res[0] += c
    return tuple(res)


@lru_cache(maxsize=None)
def fd(i, d):
    return deriv(f(i), d) if d else f(i)


FAMILIES = {  # name -> (derivative order on i, derivative order on j)
    'ff': (0, 0), 'ffxi': (0, 1), 'ffxixi': (0, 2), 'fxifxi': (1, 1), 'fxifxixi': (1, 2), 'fxixifxixi': (2, 2),
}
FAMILIES_C0C1 = {'ff': (0, 0), 'ffxi': (0, 1), 'fxif': (1, 0), 'fxifxi': (1, 1), 'fxixifxixi': (2, 2)}


@lru_cache(maxsize=None)
def product_antider(i, j, di, dj):
    return antider(mul(fd(i, di), fd(j, dj)))


def integral_full(i, j, di, dj):
    P = product_antider(i, j, di, dj)
    return ev(P, 1) - ev(P, -1)


def integral_sub(i, j, di, dj, x1, x2):
    P = product_antider(i, j, di, dj)
    return ev(P, x2) - ev(P, x1), abs_ev(P, x1) + abs_ev(P, x2)


def integral_c0c1(i, j, di, dj, c0, c1, chain=False):
    """int_{-1}^{1} f_i^(di)(xi) * f_j^(dj)(c0 + c1 xi) dxi ; chain=True multiplies by c1^dj"""
    q = compose_affine(fd(j, dj), c0, c1)
    if chain:
        q = tuple(c * Fr(c1) ** dj for c in q)
    P = antider(mul(fd(i, di), q))
    # scale for the tolerance: |f_i|(1) * |f_j|(|c0|+|c1|) * 2
    scale = 2 * abs_ev(fd(i, di), 1) * abs_ev(fd(j, dj), abs(float(c0)) + abs(float(c1))) * (abs(float(c1)) ** dj if chain else 1.0)
    return ev(P, 1) - ev(P, -1), scale


def flag_of(i, flags):
    return flags[i] if i < 4 else 1.0
