"""O1 - classical lamination theory by direct integration (independent of
compmech.composite): tensor rotation by matrix products, exact antiderivatives
through the thickness.  Also an exact rational variant for 0/90 stacks."""
from fractions import Fraction

import numpy as np


def complete_props(lp):
    lp = tuple(lp)
    if len(lp) == 3:
        e, nu = lp[0], lp[2]
        g = e / (2 * (1 + nu))
        return (e, e, nu, g, g, g)
    return lp[:6]


def qbar(lp, thetadeg):
    """returns (Qbar 3x3, |Q|-based scale 3x3, Qs 2x2 [[44,45],[45,55]])"""
    e1, e2, nu12, g12, g13, g23 = complete_props(lp)
    nu21 = nu12 * e2 / e1
    den = 1 - nu12 * nu21
    Q = np.array([[e1 / den, nu12 * e2 / den, 0.], [nu12 * e2 / den, e2 / den, 0.], [0., 0., g12]])
    th = np.deg2rad(thetadeg)
    c, s = np.cos(th), np.sin(th)
    T = np.array([[c * c, s * s, 2 * c * s], [s * s, c * c, -2 * c * s], [-c * s, c * s, c * c - s * s]])
    Ti = np.linalg.inv(T)
    Qb = Ti @ Q @ Ti.T
    # scale: absolute-value product plus a floor of 1e-5*max|Q| (so that with tol
    # 1e-10 the rounding of sin/cos, ~eps*max|Q|, is never judged)
    Sc = np.abs(Ti) @ np.abs(Q) @ np.abs(Ti.T) + 1e-5 * np.abs(Q).max()
    P = np.array([[c, -s], [s, c]])
    Qs = P.T @ np.diag([g23, g13]) @ P
    Ss = np.abs(P.T) @ np.diag([g23, g13]) @ np.abs(P) + 1e-5 * max(g23, g13)
    return Qb, Sc, Qs, Ss


def abd(stack, plyts, laminaprops, offset=0.):
    """A,B,D (3x3), E (2x2) and entry-wise scales."""
    t = float(sum(plyts))
    z = -t / 2. + offset
    A = np.zeros((3, 3)); B = np.zeros((3, 3)); D = np.zeros((3, 3)); E = np.zeros((2, 2))
    SA = np.zeros((3, 3)); SB = np.zeros((3, 3)); SD = np.zeros((3, 3)); SE = np.zeros((2, 2))
    for th, tk, lp in zip(stack, plyts, laminaprops):
        Qb, Sc, Qs, Ss = qbar(lp, th)
        z0, z1 = z, z + tk
        z = z1
        A += Qb * (z1 - z0)
        B += Qb * (z1 ** 2 - z0 ** 2) / 2.
        D += Qb * (z1 ** 3 - z0 ** 3) / 3.
        E += Qs * (z1 - z0)
        SA += Sc * abs(z1 - z0)
        SB += Sc * (z1 ** 2 + z0 ** 2) / 2.
        SD += Sc * (abs(z1) ** 3 + abs(z0) ** 3) / 3.
        SE += Ss * abs(z1 - z0)
    return dict(A=A, B=B, D=D, E=E, SA=SA, SB=SB, SD=SD, SE=SE, t=t)


def ABD6(stack, plyts, laminaprops, offset=0., force_ortho=False):
    o = abd(stack, plyts, laminaprops, offset)
    F = np.block([[o['A'], o['B']], [o['B'], o['D']]])
    S = np.block([[o['SA'], o['SB']], [o['SB'], o['SD']]])
    if force_ortho:
        # what Panel.force_orthotropic_laminate documents: the 16 / 26 entries of A, B and D are set to zero
        for i, j in ((0, 2), (1, 2), (0, 5), (1, 5), (3, 2), (4, 2), (3, 5), (4, 5)):
            F[i, j] = F[j, i] = 0.0
    return F, S


def abd_exact_crossply(stack, plyts, laminaprops, offset):
    """Exact rational A,B,D for stacks whose angles are multiples of 90."""
    Fr = Fraction
    t = sum(Fr(x) for x in plyts)
    z = -t / 2 + Fr(offset)
    A = [[Fr(0)] * 3 for _ in range(3)]
    B = [[Fr(0)] * 3 for _ in range(3)]
    D = [[Fr(0)] * 3 for _ in range(3)]
    for th, tk, lp in zip(stack, plyts, laminaprops):
        e1, e2, nu12, g12, g13, g23 = [Fr(x) for x in complete_props(lp)]
        nu21 = nu12 * e2 / e1
        den = 1 - nu12 * nu21
        q11, q12, q22, q66 = e1 / den, nu12 * e2 / den, e2 / den, g12
        k = int(round(th / 90.)) % 2
        if k == 1:
            q11, q22 = q22, q11
        Q = [[q11, q12, 0], [q12, q22, 0], [0, 0, q66]]
        z0, z1 = z, z + Fr(tk)
        z = z1
        for i in range(3):
            for j in range(3):
                A[i][j] += Q[i][j] * (z1 - z0)
                B[i][j] += Q[i][j] * (z1 ** 2 - z0 ** 2) / 2
                D[i][j] += Q[i][j] * (z1 ** 3 - z0 ** 3) / 3
    f = lambda M: np.array([[float(x) for x in r] for r in M])
    return f(A), f(B), f(D)
