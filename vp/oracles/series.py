"""Reference evaluation of the Ritz series and of strain-displacement tables
from ctypes basis values (numpy summation; independent of cfuvw/cfstrain and of
the integral tables)."""
import numpy as np

from . import basis


class Series(object):
    """basis products at scattered points (xi_p, eta_p), p = 0..npts-1"""

    def __init__(self, p, xis, etas, num=3):
        self.p = p
        self.m, self.n = p.m, p.n
        self.num = num
        self.npts = len(xis)
        self.tx = {}
        self.ty = {}
        for fld in ('u', 'v', 'w'):
            self.tx[fld] = basis.table(xis, basis.flags_of(p, fld, 'x'), p.m)
            self.ty[fld] = basis.table(etas, basis.flags_of(p, fld, 'y'), p.n)

    def T(self, fld, dx, dy):
        """[npts, m*n] with column j*m+i = d^dx f_i/dxi^dx (xi_p) * d^dy g_j/deta^dy (eta_p)"""
        fx = self.tx[fld][dx]      # [npts, m]
        gy = self.ty[fld][dy]      # [npts, n]
        return (gy[:, :, None] * fx[:, None, :]).reshape(self.npts, self.n * self.m)

    def place(self, fld, M):
        """[npts, m*n] -> [npts, size] in the dof slots of field fld"""
        out = np.zeros((self.npts, self.num * self.m * self.n))
        d = {'u': 0, 'v': 1, 'w': 2}[fld] if self.num == 3 else 0
        out[:, d::self.num] = M
        return out


def donnell_B(p, xis, etas, a, b, r=0., num=3, sina=0., cosa=1.):
    """B[6, npts, size] of the (conical) Donnell relations, convention of the kpanel
    kernel (observed on its uu block, see DESIGN 8):
      exx = u,x ; eyy = v,y + sina/r u + cosa/r w ; gxy = u,y + v,x - sina/r v
      kxx = -w,xx ; kyy = -w,yy - sina/r w,x ; kxy = -2 w,xy + sina/r w,y
    (the twist term has coefficient 1, as in the repository's own theory notebook
    theory/panel/kpanel_clt_donnell_bardell/*.nb, B0A; textbooks often carry 2)
    r = 0 means flat (no curvature terms)."""
    s = Series(p, xis, etas, num)
    dx = 2. / a
    dy = 2. / b
    size = num * p.m * p.n
    B = np.zeros((6, s.npts, size))
    ir = 0. if r == 0 else 1. / r
    if num == 3:
        B[0] += s.place('u', s.T('u', 1, 0) * dx)
        B[1] += s.place('v', s.T('v', 0, 1) * dy) + s.place('u', s.T('u', 0, 0) * sina * ir) + s.place('w', s.T('w', 0, 0) * cosa * ir)
        B[2] += s.place('u', s.T('u', 0, 1) * dy) + s.place('v', s.T('v', 1, 0) * dx) - s.place('v', s.T('v', 0, 0) * sina * ir)
    B[3] += s.place('w', -s.T('w', 2, 0) * dx * dx)
    B[4] += s.place('w', -s.T('w', 0, 2) * dy * dy - s.T('w', 1, 0) * dx * sina * ir)
    B[5] += s.place('w', -2 * s.T('w', 1, 1) * dx * dy + s.T('w', 0, 1) * dy * sina * ir)
    return B


def disp_U(p, xis, etas, a, b, num=3):
    """U[5, npts, size]: u, v, w, phix=-w,x, phiy=-w,y"""
    s = Series(p, xis, etas, num)
    size = num * p.m * p.n
    U = np.zeros((5, s.npts, size))
    if num == 3:
        U[0] = s.place('u', s.T('u', 0, 0))
        U[1] = s.place('v', s.T('v', 0, 0))
    U[2] = s.place('w', s.T('w', 0, 0))
    U[3] = s.place('w', -s.T('w', 1, 0) * 2. / a)
    U[4] = s.place('w', -s.T('w', 0, 1) * 2. / b)
    return U
