"""1-D Bardell basis tables through ctypes (calc_vec_f/fxi/fxixi of the C library
compiled from the working tree; their values are judged exactly by C10)."""
import ctypes
import os

import numpy as np

from .. import build

D = ctypes.c_double
_lib = None


def lib():
    global _lib
    if _lib is None:
        L = ctypes.CDLL(os.environ.get('VERIF_SAN_LIB') or build.build_ctypes_lib())
        for nm in ('calc_vec_f', 'calc_vec_fxi', 'calc_vec_fxixi'):
            fn = getattr(L, nm)
            fn.restype = None
            fn.argtypes = [ctypes.POINTER(D), D] + [D] * 4
        _lib = L
    return _lib


def table(pts, flags, nterms):
    """returns f, fxi, fxixi arrays [npts, nterms] for the 4 flags (t1, r1, t2, r2)"""
    L = lib()
    pts = np.asarray(pts, dtype=float).ravel()
    out = [np.zeros((pts.size, nterms)) for _ in range(3)]
    buf = (D * 30)()
    fl = [float(x) for x in flags]
    for k, nm in enumerate(('calc_vec_f', 'calc_vec_fxi', 'calc_vec_fxixi')):
        fn = getattr(L, nm)
        for ip, x in enumerate(pts):
            fn(buf, float(x), *fl)
            out[k][ip, :] = buf[:nterms]
    return out


def flags_of(p, field, direction):
    """(t1, r1, t2, r2) flags of field 'u'|'v'|'w' along 'x'|'y'"""
    return tuple(getattr(p, '%s%d%s%s' % (field, e, k, direction)) for e in (1, 2) for k in ('t', 'r'))
