"""O5 - dense eigen references and backward-error residuals."""
import numpy as np
import scipy.linalg as sl
import scipy.sparse as sp


def dense(M):
    return M.toarray() if sp.issparse(M) else np.asarray(M)


def active_set(*mats):
    """indices that are non-null in the first matrix (rows/cols symmetric)"""
    A = np.abs(dense(mats[0]))
    return np.where(A.sum(axis=0) + A.sum(axis=1) > 0)[0]


def ref_buckling(K, KG):
    """reference multipliers: returns (lam_pos sorted ascending, lam_neg, mu, act)"""
    K = dense(K)
    KG = dense(KG)
    act = active_set(K)
    Ka = K[np.ix_(act, act)]
    Ga = KG[np.ix_(act, act)]
    mu = sl.eigh(Ga, Ka, eigvals_only=True)
    mx = np.abs(mu).max() if mu.size else 0.0
    neg = mu[mu < -1e-10 * mx]
    pos = mu[mu > 1e-10 * mx]
    lam_pos = np.sort(-1.0 / neg)
    lam_neg = np.sort(-1.0 / pos)
    return lam_pos, lam_neg, mu, act


def ref_freq(K, M):
    K = dense(K)
    M = dense(M)
    act = active_set(M)
    Ka, Ma = K[np.ix_(act, act)], M[np.ix_(act, act)]
    try:
        # inverse form M v = mu K v (K positive definite there): the LOWEST frequencies are the largest mu and come out
        # with a relative error eps*cond(K); the direct form loses eps*omega_max^2/omega_min^2 on them (penalty-joined
        # assemblies: 1e-6)
        mu = sl.eigh(Ma, Ka, eigvals_only=True)[::-1]
        w2 = np.where(mu > 0, 1.0 / np.where(mu > 0, mu, 1.0), np.inf)
        return np.sqrt(w2), act
    except np.linalg.LinAlgError:
        w2 = sl.eigh(Ka, Ma, eigvals_only=True)
        return np.sqrt(np.abs(w2)) * np.sign(w2), act


def backward_error(K, G, lam, v):
    """|| (K + lam*G) v || / ((||K|| + |lam| ||G||) ||v||)  (2-norm of vector, inf-norm-ish of matrices)"""
    K = dense(K)
    G = dense(G)
    nv = np.linalg.norm(v)
    if nv == 0 or lam != lam:
        return float('inf')
    # pencil form G v = mu K v with mu = -1/lam: identical normalised backward
    # error for finite lam, and well defined for lam = +-inf (mu = 0: G v = 0)
    mu = 0.0 if np.isinf(lam) else (-1.0 / lam if lam != 0 else float('inf'))
    if np.isinf(mu):
        r = K @ v
        return float(np.linalg.norm(r) / (np.abs(K).sum(axis=1).max() * nv))
    r = G @ v - mu * (K @ v)
    nK = np.abs(K).sum(axis=1).max()
    nG = np.abs(G).sum(axis=1).max()
    return float(np.linalg.norm(r) / ((nG + abs(mu) * nK) * nv))


def random_spd(rng, n, cond=1e4, band=None):
    """random SPD matrix with prescribed condition number"""
    if band is not None and n > 3:
        A = np.zeros((n, n))
        for k in range(min(band, n - 1) + 1):
            d = rng.normal(size=n - k)
            A += np.diag(d, k)
        S = A @ A.T
        S += np.eye(n) * np.abs(S).max() / cond
        return (S + S.T) / 2
    Q, _ = np.linalg.qr(rng.normal(size=(n, n)))
    d = 10 ** rng.uniform(0, np.log10(cond), n)
    S = (Q * d) @ Q.T
    return (S + S.T) / 2


def embed(Ma, n, act):
    M = np.zeros((n, n))
    M[np.ix_(act, act)] = Ma
    return M


def spring_net(rng, n):
    """stiffness of a network of springs with integer rates: a connected chain plus random extra springs, a few nodes tied to
    the ground.  Positive definite, and the columns of the nodes without a ground spring sum to exactly 0.0 in floating
    point (what stiffness matrices of unrestrained lumped models look like)"""
    K = np.zeros((n, n))
    edges = [(i, i + 1) for i in range(n - 1)]
    for _ in range(int(rng.integers(0, 2 * n))):
        i, j = (int(x) for x in rng.integers(0, n, 2))
        if i != j:
            edges.append((i, j))
    for i, j in edges:
        w = float(rng.integers(1, 1000))
        K[i, i] += w; K[j, j] += w; K[i, j] -= w; K[j, i] -= w
    ng = int(rng.integers(1, max(2, n // 4)))
    for i in rng.choice(n, ng, replace=False):
        K[int(i), int(i)] += float(rng.integers(1, 1000))
    return K
