"""O2 - energy Hessians by quadrature of the package's own recovered fields.

B(p): strains of every unit amplitude vector at Gauss points (Panel.strain,
NLterms=False); U(p): displacements/rotations (Panel.uvw).  Gauss points come
from numpy.polynomial.legendre.leggauss, not from the package's table."""
import numpy as np

STRAIN_KEYS = ('exx', 'eyy', 'gxy', 'kxx', 'kyy', 'kxy')


def gauss_grid(p, nx, ny, ya=None, yb=None):
    """points and weights (incl. Jacobian) on [0,a] x [ya,yb]"""
    a, b = p.a, p.b
    if ya is None:
        ya = 0.0 if p.y1 is None or p.y2 is None else p.y1
    if yb is None:
        yb = b if p.y1 is None or p.y2 is None else p.y2
    gx, wx = np.polynomial.legendre.leggauss(nx)
    gy, wy = np.polynomial.legendre.leggauss(ny)
    xs = (gx + 1) * a / 2.
    ys = ya + (gy + 1) * (yb - ya) / 2.
    X, Y = np.meshgrid(xs, ys, indexing='ij')
    W = np.outer(wx * a / 2., wy * (yb - ya) / 2.)
    return X.ravel().copy(), Y.ravel().copy(), W.ravel().copy()


def exact_orders(p, extra=2):
    """Gauss orders that integrate products of two basis functions (and
    derivatives) exactly: degree of function i is max(3, i)."""
    return max(p.m, 4) + extra, max(p.n, 4) + extra


def strain_basis(p, xs, ys):
    """B[6, npts, size]: linear strains of each unit amplitude."""
    size = p.get_size()
    npts = xs.size
    B = np.zeros((6, npts, size))
    e = np.zeros(size)
    for k in range(size):
        e[:] = 0.
        e[k] = 1.
        res = p.strain(e, xs=xs, ys=ys, NLterms=False)
        for a, key in enumerate(STRAIN_KEYS):
            B[a, :, k] = res[key].ravel()
    return B


def disp_basis(p, xs, ys):
    """U[5, npts, size]: u, v, w, phix, phiy of each unit amplitude."""
    size = p.get_size()
    npts = xs.size
    U = np.zeros((5, npts, size))
    e = np.zeros(size)
    for k in range(size):
        e[:] = 0.
        e[k] = 1.
        out = p.uvw(e, xs=xs, ys=ys)
        for a in range(5):
            U[a, :, k] = np.asarray(out[a]).ravel()
    return U


def quad_form(B, F, w):
    """K = sum_p w_p B(p)^T F B(p) and its absolute-value scale.
    B: [q, npts, size]; F: [q, q] or [npts, q, q]"""
    F = np.asarray(F, dtype=float)
    if F.ndim == 2:
        FB = np.einsum('ab,bpl->apl', F, B)
        aFB = np.einsum('ab,bpl->apl', np.abs(F), np.abs(B))
    else:
        FB = np.einsum('pab,bpl->apl', F, B)
        aFB = np.einsum('pab,bpl->apl', np.abs(F), np.abs(B))
    K = np.einsum('apk,apl,p->kl', B, FB, w)
    S = np.einsum('apk,apl,p->kl', np.abs(B), aFB, np.abs(w))
    return K, S


def bilinear_form(BL, F, BR, w):
    """sum_p w_p BL(p)^T F BR(p) (not necessarily symmetric) and scale"""
    F = np.asarray(F, dtype=float)
    FB = np.einsum('ab,bpl->apl', F, BR)
    aFB = np.einsum('ab,bpl->apl', np.abs(F), np.abs(BR))
    K = np.einsum('apk,apl,p->kl', BL, FB, w)
    S = np.einsum('apk,apl,p->kl', np.abs(BL), aFB, np.abs(w))
    return K, S


def block(M, row0, size_p):
    """dense panel block and the norm of everything outside it"""
    import scipy.sparse as sp
    Md = M.toarray() if sp.issparse(M) else np.asarray(M)
    blk = Md[row0:row0 + size_p, row0:row0 + size_p]
    out = Md.copy()
    out[row0:row0 + size_p, row0:row0 + size_p] = 0
    return blk, float(np.abs(out).max()) if out.size else 0.0
