"""Installing monitors on the real functions (icontract post-conditions that
record and return True; see DESIGN.md section 2.3) and rebinding every alias."""
import sys
import threading

import numpy as np

import icontract


class MonitorRecorded(Exception):
    pass


_lock = threading.Lock()
EVENTS = {}          # monitor name -> list of observations
COUNTS = {}


def emit(name, obs):
    with _lock:
        EVENTS.setdefault(name, []).append(obs)
        COUNTS[name] = COUNTS.get(name, 0) + 1


def drain(name):
    with _lock:
        ev = EVENTS.get(name, [])
        EVENTS[name] = []
    return ev


def rebind(original, replacement):
    """Replace every module-level alias of ``original`` (from m import f)."""
    n = 0
    for modname, mod in list(sys.modules.items()):
        if mod is None or not modname.startswith('compmech'):
            continue
        d = getattr(mod, '__dict__', None)
        if not d:
            continue
        for k, v in list(d.items()):
            if v is original:
                d[k] = replacement
                n += 1
    return n


_installed = set()


# ---------------------------------------------------------------------------
# C01: read_stack
# ---------------------------------------------------------------------------
def _read_stack_post(stack, plyt, laminaprop, plyts, laminaprops, offset, result):
    try:
        n = len(stack)
        ts = list(plyts) if plyts else [plyt] * n
        lps = list(laminaprops) if laminaprops else [laminaprop] * n
        emit('read_stack', {
            'stack': [float(x) for x in stack], 'plyts': [float(x) for x in ts],
            'laminaprops': [tuple(float(y) for y in x) for x in lps], 'offset': float(offset),
            'A': np.array(result.A, dtype=float), 'B': np.array(result.B, dtype=float),
            'D': np.array(result.D, dtype=float), 'E': np.array(result.E, dtype=float),
            'ABD': np.array(result.ABD, dtype=float), 'ABDE': np.array(result.ABDE, dtype=float),
            't': float(result.t)})
    except Exception as e:  # a monitor must never alter control flow
        emit('read_stack_monitor_error', repr(e))
    return True


def install_read_stack():
    if 'read_stack' in _installed:
        return
    import compmech.composite.laminate as L
    orig = L.read_stack
    wrapped = icontract.ensure(_read_stack_post, error=MonitorRecorded)(orig)
    L.read_stack = wrapped
    rebind(orig, wrapped)
    _installed.add('read_stack')


# ---------------------------------------------------------------------------
# generic recorder for (args, result) of free functions (lb, freq, solve, static)
# ---------------------------------------------------------------------------
def install_recorder(module, fname, name=None):
    """Wrap module.fname with an icontract post-condition that records
    (args, kwargs, result).  Returns the wrapped function."""
    name = name or fname
    if name in _installed:
        return getattr(module, fname)
    orig = getattr(module, fname)

    def _post(_ARGS, _KWARGS, result):
        try:
            emit(name, {'args': _ARGS, 'kwargs': _KWARGS, 'result': result})
        except Exception as e:
            emit(name + '_monitor_error', repr(e))
        return True
    _post.__name__ = '_post_' + name
    wrapped = icontract.ensure(_post, error=MonitorRecorded)(orig)
    setattr(module, fname, wrapped)
    rebind(orig, wrapped)
    _installed.add(name)
    return wrapped
