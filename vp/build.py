"""Rebuild compmech's native code from /repo's *working tree* without Cython.

Facts (see DESIGN.md section 2.1): Cython is not available on this image, the
extension modules live in-place as untracked ``*.so`` next to the generated
``*.c``.  ``ensure()`` decides, per extension, whether the in-place binary
still corresponds to the C sources of the working tree (content hashes against
the committed manifest ``build/pinned.json``); every extension for which that
is not the case is recompiled with the repository's own flags into an overlay
directory served by :mod:`vp.overlay`.  /repo is never written to.

Also builds ``libbardell_verif.so`` (plain shared object of
``compmech/lib/src/*.c``) for the ctypes probes, optionally sanitized.
"""
import fcntl
import hashlib
import json
import os
import subprocess
import sys
import sysconfig
import threading
import time
import types
from concurrent.futures import ThreadPoolExecutor

REPO = os.environ.get('VERIF_REPO', '/repo')
VERIF = os.path.dirname(os.path.dirname(os.path.abspath(__file__)))
BUILD = os.path.join(VERIF, '.build')
PINNED = os.path.join(VERIF, 'build', 'pinned.json')
EXT_SUFFIX = sysconfig.get_config_var('EXT_SUFFIX')
PY_INC = sysconfig.get_paths()['include']


def _np_inc():
    import numpy
    return numpy.get_include()


def sha(path):
    h = hashlib.sha256()
    with open(path, 'rb') as f:
        for blk in iter(lambda: f.read(1 << 20), b''):
            h.update(blk)
    return h.hexdigest()[:20]


def extension_table(repo=REPO):
    """Execute the working tree's setup.py with stubbed Cython/setuptools and
    return the Extension definitions it declares."""
    captured = {}

    class Ext(object):
        def __init__(self, name, sources, **kw):
            self.name = name
            self.sources = sources
            self.kw = kw

    cy = types.ModuleType('Cython')
    cyb = types.ModuleType('Cython.Build')

    def cythonize(exts, **kw):
        captured['exts'] = list(exts)
        return exts
    cyb.cythonize = cythonize
    cy.Build = cyb
    st = types.ModuleType('setuptools')
    st.setup = lambda **kw: None
    st.find_packages = lambda *a, **k: []
    st.Extension = Ext
    saved = {k: sys.modules.get(k) for k in ('Cython', 'Cython.Build', 'setuptools')}
    sys.modules.update({'Cython': cy, 'Cython.Build': cyb, 'setuptools': st})
    cwd = os.getcwd()
    scratch = os.path.join(BUILD, 'setup_scratch')
    os.makedirs(os.path.join(scratch, 'compmech'), exist_ok=True)
    try:
        os.chdir(scratch)  # setup.py writes ./compmech/version.py relative to cwd
        src = open(os.path.join(repo, 'setup.py')).read()
        g = {'__name__': 'setup_stub', '__file__': os.path.join(repo, 'setup.py')}
        try:
            exec(compile(src, os.path.join(repo, 'setup.py'), 'exec'), g)
        except SystemExit:
            pass
        exts = captured.get('exts')
        if exts is None:
            exts = g.get('extensions')
    finally:
        os.chdir(cwd)
        for k, v in saved.items():
            if v is None:
                sys.modules.pop(k, None)
            else:
                sys.modules[k] = v
    out = []
    for e in exts:
        srcs = []
        for s in e.sources:
            s = os.path.abspath(s)
            if s.endswith('.pyx'):
                s = s[:-4] + '.c'
            srcs.append(s)
        out.append({
            'name': e.name,
            'sources': srcs,
            'cflags': list(e.kw.get('extra_compile_args', [])),
            'ldflags': list(e.kw.get('extra_link_args', [])),
            'include_dirs': list(e.kw.get('include_dirs', [])),
        })
    return out


def _headers(repo=REPO):
    inc = os.path.join(repo, 'compmech', 'include')
    hs = sorted(os.path.join(inc, f) for f in os.listdir(inc))
    # .pxd/.pxi only matter through the generated C, which is hashed itself
    return hs


def so_path(name, repo=REPO):
    return os.path.join(repo, *name.split('.')) + EXT_SUFFIX


def current_state(repo=REPO):
    hdr = hashlib.sha256()
    for h in _headers(repo):
        hdr.update(sha(h).encode())
    hdr = hdr.hexdigest()[:20]
    state = {}
    cache = {}
    for e in extension_table(repo):
        hs = []
        missing = []
        for s in e['sources']:
            if not os.path.exists(s):
                missing.append(s)
                continue
            if s not in cache:
                cache[s] = sha(s)
            hs.append(os.path.relpath(s, repo) + ':' + cache[s])
        key = hashlib.sha256(('|'.join(hs) + '|' + hdr + '|' + ' '.join(e['cflags'])
                              + '|' + ' '.join(e['ldflags'])).encode()).hexdigest()[:20]
        sp = so_path(e['name'], repo)
        state[e['name']] = {
            'key': key,
            'so': sha(sp) if os.path.exists(sp) else None,
            'missing': [os.path.relpath(m, repo) for m in missing],
            'ext': e,
        }
    return state


def write_pinned():
    st = current_state()
    pinned = {n: {'key': v['key'], 'so': v['so']} for n, v in st.items() if not v['missing'] and v['so']}
    os.makedirs(os.path.dirname(PINNED), exist_ok=True)
    with open(PINNED, 'w') as f:
        json.dump(pinned, f, indent=1, sort_keys=True)
    return pinned


def _run(cmd):
    p = subprocess.run(cmd, stdout=subprocess.PIPE, stderr=subprocess.STDOUT, text=True)
    if p.returncode != 0:
        raise RuntimeError('build failed: %s\n%s' % (' '.join(cmd), p.stdout[-4000:]))


_obj_guard = threading.Lock()
_obj_locks = {}


def _obj(src, flags, tag):
    """Compile one C file to an object, cached by content hash."""
    h = hashlib.sha256((sha(src) + '|' + ' '.join(flags) + '|' + tag).encode()).hexdigest()[:20]
    odir = os.path.join(BUILD, 'obj')
    os.makedirs(odir, exist_ok=True)
    o = os.path.join(odir, os.path.basename(src)[:-2] + '.' + h + '.o')
    with _obj_guard:
        lk = _obj_locks.setdefault(o, threading.Lock())
    with lk:
        if not os.path.exists(o):
            tmp = o + '.tmp%d.%d' % (os.getpid(), threading.get_ident())
            _run(['gcc', '-c', src, '-o', tmp] + flags)
            os.replace(tmp, o)
        else:
            os.utime(o)
    return o


BASE_CFLAGS = ['-fno-strict-overflow', '-DNDEBUG', '-O3', '-fPIC', '-w']
SAN_CFLAGS = ['-fno-strict-overflow', '-DNDEBUG', '-O1', '-g', '-fPIC', '-w',
              '-fno-omit-frame-pointer', '-fsanitize=address,undefined']


def build_extension(e, outdir, sanitize=False, repo=REPO):
    base = SAN_CFLAGS if sanitize else BASE_CFLAGS
    inc = ['-I' + PY_INC, '-I' + _np_inc()] + ['-I' + d for d in e['include_dirs']]
    flags = base + e['cflags'] + inc
    hdr = ''.join(sha(h) for h in _headers(repo))
    objs = [_obj(s, flags, hdr) for s in e['sources']]
    rel = e['name'].split('.')
    dst = os.path.join(outdir, *rel) + EXT_SUFFIX
    os.makedirs(os.path.dirname(dst), exist_ok=True)
    tmp = dst + '.tmp%d' % os.getpid()
    ld = ['gcc', '-shared'] + objs + ['-o', tmp] + e['ldflags']
    if sanitize:
        ld += ['-fsanitize=address,undefined']
    _run(ld)
    os.replace(tmp, dst)
    return dst


class _Lock(object):
    def __enter__(self):
        os.makedirs(BUILD, exist_ok=True)
        self.f = open(os.path.join(BUILD, '.lock'), 'w')
        fcntl.flock(self.f, fcntl.LOCK_EX)

    def __exit__(self, *a):
        fcntl.flock(self.f, fcntl.LOCK_UN)
        self.f.close()


def _prune(root, keep=None, max_age_s=1800):
    """drop overlays/objects of earlier working-tree states (disk is limited)"""
    import shutil
    now = time.time()
    for d in (os.listdir(root) if os.path.isdir(root) else []):
        p = os.path.join(root, d)
        if p == keep:
            continue
        try:
            if now - os.path.getmtime(p) > max_age_s:
                shutil.rmtree(p) if os.path.isdir(p) else os.remove(p)
        except OSError:
            pass


def ensure(verbose=False):
    """Return (overlay_dir or None, info).  Rebuilds whatever differs from the
    pinned manifest into an overlay directory keyed by the set of changes."""
    t0 = time.time()
    with _Lock():
        pinned = json.load(open(PINNED)) if os.path.exists(PINNED) else {}
        st = current_state()
        todo = []
        unbuildable = []
        for name, v in sorted(st.items()):
            p = pinned.get(name)
            if v['missing']:
                unbuildable.append(name)
                continue
            if p is not None and p['key'] == v['key'] and p['so'] == v['so']:
                continue
            todo.append(name)
        info = {'rebuilt': todo, 'unbuildable': unbuildable, 'n_ext': len(st)}
        if not todo:
            info['wall_s'] = round(time.time() - t0, 2)
            _prune(os.path.join(BUILD, 'overlay'))
            _prune(os.path.join(BUILD, 'obj'), max_age_s=6 * 3600)
            _prune(os.path.join(BUILD, 'lib'), max_age_s=6 * 3600)
            return None, info
        okey = hashlib.sha256('|'.join(n + ':' + st[n]['key'] for n in todo).encode()).hexdigest()[:16]
        odir = os.path.join(BUILD, 'overlay', okey)
        done = os.path.join(odir, '.done')
        if not os.path.exists(done):
            if verbose:
                print('build: recompiling %d extension(s) from the working tree: %s'
                      % (len(todo), ', '.join(todo[:6]) + (' ...' if len(todo) > 6 else '')), flush=True)
            with ThreadPoolExecutor(max_workers=int(os.environ.get('VERIF_JOBS', '16'))) as ex:
                list(ex.map(lambda n: build_extension(st[n]['ext'], odir), todo))
            with open(done, 'w') as f:
                json.dump(todo, f)
        _prune(os.path.join(BUILD, 'overlay'), keep=odir)
        info['overlay'] = odir
        info['wall_s'] = round(time.time() - t0, 2)
        return odir, info


def build_sanitized(names):
    """Build ASan+UBSan variants of the named extensions (from the working
    tree's C) into an overlay; returns the overlay dir."""
    with _Lock():
        st = current_state()
        okey = hashlib.sha256(('san|' + '|'.join(n + ':' + st[n]['key'] for n in sorted(names))).encode()).hexdigest()[:16]
        odir = os.path.join(BUILD, 'overlay_san', okey)
        done = os.path.join(odir, '.done')
        if not os.path.exists(done):
            with ThreadPoolExecutor(max_workers=16) as ex:
                list(ex.map(lambda n: build_extension(st[n]['ext'], odir, sanitize=True), sorted(names)))
            open(done, 'w').write('ok')
        return odir


def lib_sources(repo=REPO):
    d = os.path.join(repo, 'compmech', 'lib', 'src')
    return sorted(os.path.join(d, f) for f in os.listdir(d) if f.endswith('.c'))


def build_ctypes_lib(sanitize=False, repo=REPO):
    """libbardell_verif.so from the working tree's compmech/lib/src/*.c."""
    with _Lock():
        srcs = lib_sources(repo)
        inc = ['-I' + os.path.join(repo, 'compmech', 'include')]
        flags = (SAN_CFLAGS if sanitize else BASE_CFLAGS) + inc
        hdr = ''.join(sha(h) for h in _headers(repo))
        with ThreadPoolExecutor(max_workers=16) as ex:
            objs = list(ex.map(lambda s: _obj(s, flags, hdr), srcs))
        key = hashlib.sha256('|'.join(objs).encode()).hexdigest()[:16]
        ldir = os.path.join(BUILD, 'lib')
        os.makedirs(ldir, exist_ok=True)
        dst = os.path.join(ldir, 'libbardell_verif%s.%s.so' % ('_san' if sanitize else '', key))
        if not os.path.exists(dst):
            tmp = dst + '.tmp%d' % os.getpid()
            ld = ['gcc', '-shared'] + objs + ['-o', tmp, '-lm']
            if sanitize:
                ld += ['-fsanitize=address,undefined']
            _run(ld)
            os.replace(tmp, dst)
        else:
            os.utime(dst)
        return dst


if __name__ == '__main__':
    cmd = sys.argv[1] if len(sys.argv) > 1 else 'ensure'
    if cmd == 'pin':
        p = write_pinned()
        print('pinned %d extensions' % len(p))
    elif cmd == 'ensure':
        o, info = ensure(verbose=True)
        print(json.dumps(info))
    elif cmd == 'lib':
        print(build_ctypes_lib())
    elif cmd == 'table':
        for e in extension_table():
            print(e['name'], e['cflags'], [os.path.basename(s) for s in e['sources']])
