"""pytest plugin (-p vp.pytest_monitors): runs the repository's own tests, unedited,
with the monitors installed, as an additional realistic workload.  Every observed
call of read_stack / lb / freq / solve is judged by the same oracles the checks
use; the judgements are written to $VERIF_PYTEST_OUT as JSON records."""
import importlib
import json
import os

import numpy as np


def pytest_configure(config):
    from . import overlay, monitors
    overlay.install()
    monitors.install_read_stack()
    LBM = importlib.import_module('compmech.analysis.linear_buckling')
    monitors.install_recorder(LBM, 'lb')
    FM = importlib.import_module('compmech.analysis.freq')
    monitors.install_recorder(FM, 'freq')
    import compmech.sparse as S
    monitors.install_recorder(S, 'solve')


def _judge_all():
    from . import monitors
    from .core import Case
    from .checks import c01, c05, c06, c07
    from .oracles import eig
    recs = []
    # C01
    c = Case({'workload': 'repository test suite', 'monitor': 'read_stack'})
    seen = set()
    for o in monitors.drain('read_stack'):
        c.hit('read_stack')
        key = (tuple(o['stack']), tuple(o['plyts']), tuple(o['laminaprops']), o['offset'])
        if key in seen:
            continue
        seen.add(key)
        c01.judge_obs(c, o, tag='(suite) ')
    c.info['distinct_laminates'] = len(seen)
    r = c.record(-1); r['property'] = 'C01'; recs.append(r)
    # C05
    c = Case({'workload': 'repository test suite', 'monitor': 'lb'})
    for ev in monitors.drain('lb'):
        c.hit('lb')
        a = ev['args']; kw = ev['kwargs']
        K, G = a[0], a[1]
        k = kw.get('num_eigvalues', 25)
        vals, vecs = ev['result']
        try:
            if K.shape[0] <= 1500:
                c05.judge_pairs(c, K, G, vals, vecs, '(suite) lb', k)
        except np.linalg.LinAlgError as e:
            c.info['skipped'] = repr(e)[:80]
        c.rej = None
    r = c.record(-1); r['property'] = 'C05'; recs.append(r)
    # C06
    c = Case({'workload': 'repository test suite', 'monitor': 'freq'})
    for ev in monitors.drain('freq'):
        c.hit('freq')
        a = ev['args']; kw = ev['kwargs']
        K, M = a[0], a[1]
        vals, vecs = ev['result']
        try:
            if K.shape[0] <= 1500 and not np.iscomplexobj(eig.dense(K)):
                c06.judge(c, K, M, vals, vecs, '(suite) freq', kw.get('sort', True), kw.get('num_eigvalues', 25), kw.get('sparse_solver', True))
        except np.linalg.LinAlgError as e:
            c.info['skipped'] = repr(e)[:80]
        c.rej = None
    r = c.record(-1); r['property'] = 'C06'; recs.append(r)
    # C07
    c = Case({'workload': 'repository test suite', 'monitor': 'solve'})
    ev = monitors.EVENTS.get('solve', [])
    big = [e for e in ev if e['args'][0].shape[0] > 1500]
    monitors.EVENTS['solve'] = [e for e in ev if e['args'][0].shape[0] <= 1500]
    c.info['skipped_large_systems'] = len(big)
    c07.judge_solve_events(c, '(suite) solve:')
    r = c.record(-1); r['property'] = 'C07'; recs.append(r)
    return recs


def pytest_sessionfinish(session, exitstatus):
    out = os.environ.get('VERIF_PYTEST_OUT')
    if not out:
        return
    try:
        recs = _judge_all()
    except Exception:
        import traceback
        recs = [{'harness_error': traceback.format_exc()[-3000:]}]
    with open(out, 'w') as f:
        json.dump({'exitstatus': int(exitstatus), 'records': recs}, f)
