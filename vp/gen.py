"""Seeded generators of hostile/diverse inputs (materials, laminates, edge
flags, panels).  Everything returns plain-Python JSON-able descriptions; the
builders turn a description into the package's objects."""
import numpy as np

FLAG_NAMES = [d + e + k + ax for ax in 'xy' for d in 'uvw' for e in '12' for k in 'tr']
# e.g. u1tx u1rx u2tx u2rx v1tx ... w2rx  u1ty ...


def logu(rng, lo, hi):
    return float(10 ** rng.uniform(np.log10(lo), np.log10(hi)))


def material(rng, form=None, iso_ok=True):
    """(E1,E2,nu12[,G12,G13,G23[,E3,nu13,nu23]]) with E,G>0, 1-nu12*nu21>0."""
    if form is None:
        form = int(rng.choice([3, 6, 6, 6, 9]) if iso_ok else rng.choice([6, 6, 9]))
    e1 = logu(rng, 1e8, 3e11)
    if form == 3:
        nu = float(rng.uniform(-0.4, 0.49))
        return (e1, e1, nu)
    e2 = e1 * logu(rng, 0.02, 2.0)
    if rng.random() < 0.12:
        e2 = e1          # balanced fabric: equal moduli with shear moduli of their own (not isotropic)
    lim = 0.95 * np.sqrt(e1 / e2)   # nu12^2*e2/e1 < 1
    nu12 = float(rng.uniform(-0.5, 0.5) * min(1.0, lim) if rng.random() < 0.8 else rng.uniform(-lim, lim) * 0.9)
    g12 = e2 * logu(rng, 0.1, 2.0)
    g13 = e2 * logu(rng, 0.1, 2.0)
    g23 = e2 * logu(rng, 0.05, 2.0)
    if form == 6:
        return (e1, e2, nu12, g12, g13, g23)
    e3 = e2 * logu(rng, 0.5, 2.0)
    nu13 = float(rng.uniform(-0.2, 0.3))
    nu23 = float(rng.uniform(-0.2, 0.3))
    return (e1, e2, nu12, g12, g13, g23, e3, nu13, nu23)


def load_triple(rng, scale=1.0, allow_none=True):
    """(Nxx, Nyy, Nxy): half the time all three non-zero, otherwise a random non-empty subset is non-zero and the others
    are 0.0 or (the attribute's default) None - single-component pre-loads, pure shear included"""
    N = [float(x) * scale for x in rng.normal(size=3)]
    if rng.random() < 0.5:
        return N
    keep = rng.random(3) < 0.4
    if not keep.any():
        keep[int(rng.integers(0, 3))] = True
    none = bool(allow_none and rng.random() < 0.5)
    return [N[i] if keep[i] else (None if none else 0.0) for i in range(3)]


def unit_scale(rng, prob=0.3):
    """a common factor for all matrices of one eigen / linear problem: the same structure described in another unit system
    (GN and GPa instead of N and Pa ...) - relations between the matrices are unchanged, absolute magnitudes are not"""
    return float(10 ** rng.uniform(-14, 3)) if rng.random() < prob else 1.0


def vec_repr(rng, v, lists=True):
    """the same amplitude vector in another in-memory representation (what callers really pass: a column of a mode
    matrix, a strided slice, a list); returns (object, kind).  Read-only arrays are left out: the compiled kernels
    refuse them with a ValueError, which is a rejection and not a result"""
    v = np.asarray(v, dtype=float)
    kind = str(rng.choice(['contiguous', 'strided', 'column', 'list', 'reversed'] if lists else ['contiguous', 'strided', 'column', 'reversed']))
    if kind == 'strided':
        big = rng.normal(size=2 * v.size); big[::2] = v
        return big[::2], kind
    if kind == 'column':
        M = np.asfortranarray(rng.normal(size=(v.size, 3))); M = np.ascontiguousarray(M); M[:, 1] = v
        return M[:, 1], kind
    if kind == 'list':
        return [float(x) for x in v], kind
    if kind == 'reversed':
        w = v[::-1].copy()
        return w[::-1], kind
    return v.copy(), kind


def angle(rng):
    k = rng.integers(0, 6)
    if k == 0:
        return float(rng.uniform(-180, 180))
    if k == 1:
        return float(rng.choice([0, 45, -45, 90, 30, -30, 60, -60]))
    if k == 2:
        return float(rng.choice([0, 90, 180, -90]) + rng.choice([-1, 1]) * 10 ** rng.uniform(-9, -3))
    if k == 3:
        return float(rng.integers(-180, 181))
    if k == 4:
        return float(rng.uniform(-90, 90))
    return float(rng.choice([0., 90.]))


def laminate(rng, nmax=12, tscale=None, uniform=None, offset_prob=0.5, kind=None, form=None):
    """Description of a laminate: dict(stack, plyts, laminaprops, offset, uniform).
    kind: None (mixture) | 'unsym' | 'sym' | 'crossply' | 'single' | 'iso'"""
    if kind is None:
        kind = str(rng.choice(['unsym', 'unsym', 'unsym', 'sym', 'crossply', 'single', 'iso']))
    n = int(rng.integers(1, nmax + 1))
    if tscale is None:
        tscale = logu(rng, 1e-4, 1e-2)
    if uniform is None:
        uniform = bool(rng.random() < 0.4)
    if kind == 'iso':
        mats = [material(rng, 3)] * n
        uniform_mat = True
    elif uniform or rng.random() < 0.5:
        mats = [material(rng, form, iso_ok=False)] * n
        uniform_mat = True
    else:
        mats = [material(rng, form) for _ in range(n)]
        uniform_mat = False
    if uniform:
        ts = [tscale] * n
    else:
        ts = [tscale * logu(rng, 0.03, 30) if rng.random() < 0.3 else tscale * float(rng.uniform(0.5, 2)) for _ in range(n)]
    if kind == 'single':
        n = 1
        stack = [angle(rng)]
        ts, mats = ts[:1], mats[:1]
    elif kind == 'crossply':
        stack = [float(rng.choice([0., 90.])) for _ in range(n)]
    elif kind == 'sym':
        h = max(1, n // 2)
        half = [angle(rng) for _ in range(h)]
        stack = half + half[::-1]
        ts = ts[:h] + ts[:h][::-1]
        mats = mats[:h] + mats[:h][::-1]
    else:
        stack = [angle(rng) for _ in range(n)]
    t = sum(ts)
    offset = 0.0
    if rng.random() < offset_prob:
        offset = float(rng.uniform(-3, 3) * t)
    return {'stack': stack, 'plyts': ts, 'laminaprops': [list(m) for m in mats],
            'offset': offset, 'uniform': bool(uniform and uniform_mat), 'kind': kind}


def read_stack_args(lamd):
    """kwargs for compmech.composite.laminate.read_stack"""
    if lamd.get('uniform'):
        return dict(stack=list(lamd['stack']), plyt=lamd['plyts'][0],
                    laminaprop=tuple(lamd['laminaprops'][0]), offset=lamd['offset'])
    return dict(stack=list(lamd['stack']), plyts=list(lamd['plyts']),
                laminaprops=[tuple(m) for m in lamd['laminaprops']], offset=lamd['offset'])


def flags(rng, style=None, w_only=False):
    """24 edge flags.  style: 'binary' | 'real' | 'ss' | 'free' | 'clamped' | 'mixed'"""
    if style is None:
        style = str(rng.choice(['binary', 'binary', 'real', 'ss', 'free', 'clamped', 'mixed']))
    f = {}
    for nme in FLAG_NAMES:
        if style == 'binary':
            v = float(rng.integers(0, 2))
        elif style == 'real':
            v = float(rng.uniform(0.2, 1.8))
        elif style == 'free':
            v = 1.0
        elif style == 'clamped':
            v = 0.0
        elif style == 'ss':
            v = 1.0 if (nme[0] == 'w' and nme[2] == 'r') else 0.0
        else:
            r = rng.random()
            v = 0.0 if r < 0.4 else (1.0 if r < 0.8 else float(rng.uniform(0.2, 1.8)))
        f[nme] = v
    f['_style'] = style
    return f


def apply_flags(p, f):
    for k, v in f.items():
        if not k.startswith('_'):
            setattr(p, k, v)


def panel_desc(rng, model=None, mmax=6, lam=None, fl=None, sub=None, nmax_plies=6, place=True):
    """Description of one Panel."""
    if model is None:
        model = str(rng.choice(['plate', 'plate', 'cpanel', 'cpanel', 'kpanel', 'plate_w']))
    a = logu(rng, 0.05, 20)
    b = a * logu(rng, 0.2, 5)
    d = {'model': model, 'a': a, 'b': b,
         'm': int(rng.integers(1, mmax + 1)), 'n': int(rng.integers(1, mmax + 1))}
    if model in ('cpanel', 'kpanel'):
        d['r'] = b * logu(rng, 0.3, 1e4)
    if model == 'kpanel':
        d['alphadeg'] = float(rng.uniform(0, 60)) if rng.random() < 0.85 else 0.0
        # keep the small-end radius positive: r is the bottom radius, shrinks by sin(alpha)*a
        d['r'] = max(d['r'], 1.5 * np.sin(np.deg2rad(d['alphadeg'])) * a + 0.3 * b)
    tscale = min(a, b) * logu(rng, 1e-3, 3e-2)
    d['lam'] = lam if lam is not None else laminate(rng, nmax=nmax_plies, tscale=tscale / 4)
    if lam is None and rng.random() < 0.1:
        # Panel.force_orthotropic_laminate: the 16/26 couplings of A, B, D are dropped from the laminate matrix (in place)
        d['lam'] = dict(d['lam'], force_ortho=True)
    d['flags'] = fl if fl is not None else flags(rng)
    if sub is None:
        sub = rng.random() < 0.3
    if sub:
        y1, y2 = sorted(rng.uniform(0, b, 2))
        if rng.random() < 0.3:
            y1 = 0.0
        if rng.random() < 0.3:
            y2 = b
        if y2 - y1 < 1e-3 * b:
            y1, y2 = 0.0, b * float(rng.uniform(0.2, 1))
        d['y1'], d['y2'] = float(y1), float(y2)
    d['mu'] = logu(rng, 1e-1, 1e5)
    num = 1 if model == 'plate_w' else 3
    own = num * d['m'] * d['n']
    if place and rng.random() < 0.4:
        r0 = int(rng.integers(0, 20))
        d['row0'] = r0
        d['size'] = own + r0 + int(rng.integers(0, 15))
    else:
        d['row0'] = 0
        d['size'] = own
    return d


MODEL_NAME = {'plate': 'plate_clt_donnell_bardell', 'cpanel': 'cpanel_clt_donnell_bardell',
              'kpanel': 'kpanel_clt_donnell_bardell', 'plate_w': 'plate_clt_donnell_bardell_w'}


def build_panel(d, explicit_model=True):
    from compmech.panel import Panel
    lam = d['lam']
    kw = dict(a=d['a'], b=d['b'], m=d['m'], n=d['n'], stack=list(lam['stack']),
              offset=lam['offset'], mu=d.get('mu'))
    if lam.get('uniform'):
        kw['plyt'] = lam['plyts'][0]
        kw['laminaprop'] = tuple(lam['laminaprops'][0])
    if 'r' in d:
        kw['r'] = d['r']
    if 'alphadeg' in d:
        kw['alphadeg'] = d['alphadeg']
    if 'y1' in d:
        kw['y1'] = d['y1']
        kw['y2'] = d['y2']
    p = Panel(**kw)
    if not lam.get('uniform'):
        p.plyts = list(lam['plyts'])
        p.laminaprops = [tuple(x) for x in lam['laminaprops']]
    if explicit_model or d['model'] == 'plate_w':
        p.model = MODEL_NAME[d['model']]
    apply_flags(p, d['flags'])
    p.out_num_cores = 1
    if lam.get('force_ortho'):
        p.force_orthotropic_laminate = True
    return p


def leftovers(rng, p, loads=True, forces=True, aero=True, prob=0.5):
    """attributes an earlier use of the same object leaves behind and that are no part of the quantity asked for next:
    buckling reference loads, point forces of a static run, flow parameters of a flutter run.  Returns the list of kinds left."""
    left = []
    if rng.random() >= prob:
        return left
    if loads and rng.random() < 0.6:
        p.Nxx, p.Nyy, p.Nxy = load_triple(rng, float(10 ** rng.uniform(0, 5)))
        left.append('loads')
    if forces and rng.random() < 0.5:
        for _ in range(int(rng.integers(1, 4))):
            f = [float(x) for x in rng.normal(size=3) * 10 ** rng.uniform(0, 4)]
            p.add_force(float(rng.uniform(0, p.a)), float(rng.uniform(0, p.b)), f[0], f[1], f[2], cte=bool(rng.random() < 0.5))
        left.append('forces')
    if aero and rng.random() < 0.4:
        p.flow = str(rng.choice(['x', 'y']))
        p.beta = float(10 ** rng.uniform(-2, 4))
        if rng.random() < 0.5:
            p.gamma = float(10 ** rng.uniform(-2, 4))
        left.append('aero')
    return left


def order_kwargs(rng, p, nx, ny):
    """the ways a caller states the integration orders of a numerical kernel: both as keywords, one as keyword and the other
    through the object's attribute, or both through the attributes.  Where a keyword is given the attribute holds a decoy
    (another order), so a kernel that falls back to the attribute shows.  Returns (kwargs, kind)."""
    kind = str(rng.choice(['both', 'both', 'nx_only', 'ny_only', 'attributes']))
    kw = {}
    if kind in ('both', 'nx_only'):
        kw['nx'] = nx
        p.nx = int(nx + rng.integers(1, 6)) if rng.random() < 0.5 else max(2, int(nx - rng.integers(1, 4)))
    else:
        p.nx = nx
    if kind in ('both', 'ny_only'):
        kw['ny'] = ny
        p.ny = int(ny + rng.integers(1, 6)) if rng.random() < 0.5 else max(2, int(ny - rng.integers(1, 4)))
    else:
        p.ny = ny
    return kw, kind


def active_dofs(K, tol=0.0):
    """indices whose row AND column are not identically zero"""
    import scipy.sparse as sp
    A = abs(sp.csr_matrix(K))
    s = np.asarray(A.sum(axis=0)).ravel()
    return np.where(s > tol)[0]


def subinterval_amplification(d):
    """The sub-interval tables evaluate P(xi2) - P(xi1) of an antiderivative in
    power form; on a narrow interval the difference cancels and the relative
    error of an entry grows like b/(y2-y1) (the tables themselves are judged in
    C10 against the antiderivative's magnitude)."""
    amp = 1.0
    if 'y1' in d and 'y2' in d:
        amp = max(1.0, d['b'] / max(d['y2'] - d['y1'], 1e-300))
    return amp * order_amplification(d)


def order_amplification(d):
    """The power-form evaluation of the hierarchical functions loses digits with
    the polynomial degree: above 8 terms the observed round-off of a matrix
    entry grows roughly like (terms/8)^6 (thorough-tier calibration on the
    unchanged tree: worst 5.6x the 8-term tolerance at 12 terms, 6000 cases);
    (terms/8)^8 leaves a margin of about 4."""
    return max(1.0, (max(d.get('m', 1), d.get('n', 1)) / 8.0)) ** 8


# ----------------------------------------------------------------------------
# stiffened panel bays
# ----------------------------------------------------------------------------
def simple_lam(rng, tscale, nmax=3, kind=None):
    """(stack, plyt, laminaprop) uniform laminate for bays/stiffeners"""
    n = int(rng.integers(1, nmax + 1))
    if kind == 'iso':
        mat = material(rng, 3)
        stack = [0.] * n
    else:
        mat = material(rng, 6)
        stack = [float(rng.choice([0, 45, -45, 90, 30])) for _ in range(n)]
    return stack, float(tscale), tuple(mat)


def bay_desc(rng, curved=None, mmax=6, nstiff=(0, 2), kinds=('blade1d', 'blade2d', 't2d'), ncuts=None, fl=None):
    a = logu(rng, 0.2, 5)
    b = a * logu(rng, 0.4, 2.5)
    d = {'a': a, 'b': b, 'm': int(rng.integers(3, mmax + 1)), 'n': int(rng.integers(3, mmax + 1))}
    if curved is None:
        curved = rng.random() < 0.4
    if curved:
        d['r'] = b * logu(rng, 0.8, 1e3)
    t = min(a, b) * logu(rng, 2e-3, 2e-2)
    stack, plyt, mat = simple_lam(rng, t / 3, 4)
    d['stack'] = stack; d['plyt'] = plyt; d['laminaprop'] = list(mat)
    d['mu'] = logu(rng, 1e2, 1e4)
    d['flags'] = fl if fl is not None else flags(rng, style=str(rng.choice(['ss', 'clamped', 'binary', 'mixed', 'free'])))
    if ncuts is None:
        ncuts = int(rng.integers(0, 5))
    cuts = sorted(float(x) for x in rng.uniform(0.05 * b, 0.95 * b, ncuts))
    d['cuts'] = cuts
    ns = int(rng.integers(nstiff[0], nstiff[1] + 1))
    st = []
    if ns and not cuts:
        cuts = [float(rng.uniform(0.2 * b, 0.8 * b))]
        d['cuts'] = cuts
    for _ in range(ns):
        kind = str(rng.choice(list(kinds)))
        if kind == 'blade1d' and rng.random() < 0.3:
            ys = float(rng.choice([0.0, b]))
        else:
            ys = float(rng.choice(cuts))
        s = {'kind': kind, 'ys': ys}
        room = 2 * min(ys, b - ys)
        bb = float(min(b * rng.uniform(0.05, 0.2), 0.9 * room)) if room > 0 else b * 0.05
        fs, fp, fm = simple_lam(rng, t / 2, 3)
        s.update(bf=b * float(rng.uniform(0.03, 0.15)), fstack=fs, fplyt=fp, flaminaprop=list(fm))
        if kind == 't2d' or (rng.random() < 0.5 and room > 0):
            bs, bp, bm = simple_lam(rng, t / 3, 3)
            s.update(bb=bb, bstack=bs, bplyt=bp, blaminaprop=list(bm))
        if kind in ('blade2d', 't2d'):
            s.update(mf=int(rng.integers(3, 6)), nf=int(rng.integers(3, 6)))
        if kind == 't2d':
            s.update(mb=int(rng.integers(3, 6)), nb=int(rng.integers(3, 6)))
        if rng.random() < 0.5:
            s['mu'] = logu(rng, 1e2, 1e4)         # stiffener density different from the bay's
        st.append(s)
    d['stiffeners'] = st
    return d


def build_bay(d):
    from compmech.stiffpanelbay import StiffPanelBay
    bay = StiffPanelBay()
    bay.a = d['a']; bay.b = d['b']; bay.m = d['m']; bay.n = d['n']
    if 'r' in d:
        bay.r = d['r']
    bay.stack = list(d['stack']); bay.plyt = d['plyt']; bay.laminaprop = tuple(d['laminaprop'])
    bay.mu = d['mu']
    apply_flags(bay, d['flags'])
    bay.out_num_cores = 1
    edges = [0.0] + list(d['cuts']) + [d['b']]
    for y1, y2 in zip(edges[:-1], edges[1:]):
        bay.add_panel(y1, y2)
    for s in d['stiffeners']:
        kw = {k: (tuple(v) if k.endswith('laminaprop') else v) for k, v in s.items() if k not in ('kind', 'ys')}
        if s['kind'] == 'blade1d':
            bay.add_bladestiff1d(s['ys'], **kw)
        elif s['kind'] == 'blade2d':
            bay.add_bladestiff2d(s['ys'], **kw)
        else:
            bay.add_tstiff2d(s['ys'], **kw)
    return bay


# ----------------------------------------------------------------------------
# panel assemblies with penalty connections
# ----------------------------------------------------------------------------
CONN_KINDS = ('SSycte', 'SSxcte', 'BFycte', 'BFxcte', 'SB')


def assembly_desc(rng, npan=None, mmax=5, kinds=CONN_KINDS, models=('plate', 'cpanel'), interior=True, shuffle=True, offset_prob=0.0):
    """chain of panels joined by penalty connections; geometric precondition of a
    line connection (equal interface length) / surface connection (equal a, b) is built in."""
    if npan is None:
        npan = int(rng.integers(2, 5))
    a0 = logu(rng, 0.2, 5)
    b0 = a0 * logu(rng, 0.4, 2.5)
    t = min(a0, b0) * logu(rng, 3e-3, 2e-2)
    panels = []
    conns = []
    for k in range(npan):
        d = panel_desc(rng, model=str(rng.choice(list(models))), mmax=mmax, sub=False, place=False,
                       lam=laminate(rng, nmax=4, tscale=t / 3, offset_prob=offset_prob))
        d['m'] = max(d['m'], 2); d['n'] = max(d['n'], 2)
        if k == 0:
            d['a'], d['b'] = a0, b0
        else:
            kind = str(rng.choice(list(kinds)))
            prev = panels[-1]
            c = {'func': kind, 'p1': k - 1, 'p2': k}
            if kind in ('SSycte', 'BFycte'):
                d['a'] = prev['a']
                d['b'] = prev['b'] * logu(rng, 0.3, 2)
                pos1 = float(rng.choice([0.0, prev['b']])) if (not interior or rng.random() < 0.6) else float(rng.uniform(0, prev['b']))
                if kind == 'BFycte' and interior and rng.random() < 0.7:
                    pos1 = float(rng.uniform(0, prev['b']))
                pos2 = float(rng.choice([0.0, d['b']])) if (not interior or rng.random() < 0.7) else float(rng.uniform(0, d['b']))
                c.update(ycte1=pos1, ycte2=pos2)
            elif kind in ('SSxcte', 'BFxcte'):
                d['b'] = prev['b']
                d['a'] = prev['a'] * logu(rng, 0.3, 2)
                pos1 = float(rng.choice([0.0, prev['a']])) if (not interior or rng.random() < 0.6) else float(rng.uniform(0, prev['a']))
                if kind == 'BFxcte' and interior and rng.random() < 0.7:
                    pos1 = float(rng.uniform(0, prev['a']))
                pos2 = float(rng.choice([0.0, d['a']])) if (not interior or rng.random() < 0.7) else float(rng.uniform(0, d['a']))
                c.update(xcte1=pos1, xcte2=pos2)
            else:
                d['a'], d['b'] = prev['a'], prev['b']
            conns.append(c)
        if d['model'] == 'cpanel':
            d['r'] = d['b'] * logu(rng, 0.5, 1e3)
        own = 3 * d['m'] * d['n']
        d['row0'] = 0
        d['size'] = own
        panels.append(d)
    order = [int(i) for i in (rng.permutation(npan) if shuffle else np.arange(npan))]
    return {'panels': panels, 'conns': conns, 'order': order}


def build_assembly(ad):
    from compmech.panel.assembly import PanelAssembly
    ps = [build_panel(d) for d in ad['panels']]
    conn = []
    for c in ad['conns']:
        cc = dict(c)
        cc['p1'] = ps[c['p1']]
        cc['p2'] = ps[c['p2']]
        conn.append(cc)
    ass = PanelAssembly([ps[i] for i in ad['order']], conn=conn if conn else None)
    return ass, ps, conn


# ----------------------------------------------------------------------------
# complete shells (ConeCyl)
# ----------------------------------------------------------------------------
CLPT_MODELS = ['clpt_donnell_bc1', 'clpt_donnell_bc2', 'clpt_donnell_bc3', 'clpt_donnell_bc4',
               'clpt_sanders_bc1', 'clpt_sanders_bc2', 'clpt_sanders_bc3', 'clpt_sanders_bc4']
ISO_MODELS = ['iso_clpt_donnell_bc2', 'iso_clpt_donnell_bc3']
FSDT_MODELS = ['fsdt_donnell_bc1', 'fsdt_donnell_bc2', 'fsdt_donnell_bc3', 'fsdt_donnell_bc4', 'fsdt_donnell_bcn', 'fsdt_sanders_bcn']
NL_MODELS = ['clpt_donnell_bc1', 'clpt_donnell_bc2', 'clpt_donnell_bc3', 'clpt_donnell_bc4',
             'clpt_sanders_bc1', 'clpt_sanders_bc2', 'clpt_sanders_bc3', 'clpt_sanders_bc4',
             'iso_clpt_donnell_bc2', 'iso_clpt_donnell_bc3', 'fsdt_donnell_bc1', 'fsdt_donnell_bcn']
SPRINGS = {'bc1': ['kphix'], 'bc2': ['ku', 'kphix'], 'bc3': ['kv', 'kphix'], 'bc4': ['ku', 'kv', 'kphix'],
           'bcn': ['ku', 'kv', 'kw', 'kphix', 'kphit']}


def shell_desc(rng, models=None, cone=None, mmax=4, nmax=3, springs=True):
    if models is None:
        models = CLPT_MODELS + ISO_MODELS + FSDT_MODELS
    model = str(rng.choice(list(models)))
    d = {'model': model}
    if cone is None:
        cone = rng.random() < 0.5
    d['alphadeg'] = float(rng.uniform(0.5, 60)) if cone else 0.0
    if cone and rng.random() < 0.12:
        d['alphadeg'] = float(10 ** rng.uniform(-6, -0.4))      # very shallow cones: still cones (no tolerance may turn them into cylinders)
    r2 = logu(rng, 0.05, 2)
    L = r2 * logu(rng, 0.3, 4)
    d['r2'] = r2; d['L'] = L
    h = r2 * logu(rng, 2e-3, 2e-2)
    if model.startswith('iso_') or ('clpt' in model and rng.random() < 0.1):
        # isotropic wall given through (E11, nu, h): the only input of the iso_ short-cuts, and an alternative input route of the
        # general classical models (the first-order-shear models refuse it)
        d['E11'] = logu(rng, 1e9, 3e11); d['nu'] = float(rng.uniform(0.0, 0.45)); d['h'] = h
    else:
        n = int(rng.integers(1, 5))
        mat = material(rng, 6 if 'fsdt' in model else None, iso_ok=True)
        d['stack'] = [angle(rng) for _ in range(n)]
        d['plyt'] = h / n
        d['laminaprop'] = list(mat)
        if rng.random() < 0.1:
            d['force_ortho'] = True       # ConeCyl.force_orthotropic_laminate: the 16/26 couplings are dropped from the laminate matrix
        elif rng.random() < 0.1:
            d['F_reuse_factor'] = float(rng.uniform(1.3, 2.5))      # laminate matrix handed over directly through ConeCyl.F_reuse
    d['m1'] = int(rng.integers(1, mmax + 1)); d['m2'] = int(rng.integers(1, mmax + 1)); d['n2'] = int(rng.integers(1, nmax + 1))
    d['s'] = int(rng.choice([10, 20, 40]))
    if springs:
        bc = model.split('_')[-1]
        for nm in SPRINGS.get(bc, []):
            for edge in ('Bot', 'Top'):
                d[nm + edge] = float(rng.choice([0., 1e8])) if rng.random() < 0.5 else float(10 ** rng.uniform(0, 8))
    return d


def build_shell(d):
    from compmech.conecyl import ConeCyl
    cc = ConeCyl()
    cc.model = d['model']
    cc.alphadeg = d['alphadeg']
    cc.r2 = d['r2']; cc.L = d['L']
    if 'stack' in d:
        cc.stack = list(d['stack']); cc.plyt = d['plyt']; cc.laminaprop = tuple(d['laminaprop'])
    else:
        cc.E11 = d['E11']; cc.nu = d['nu']; cc.h = d['h']
    cc.m1 = d['m1']; cc.m2 = d['m2']; cc.n2 = d['n2']; cc.s = d['s']
    for k, v in d.items():
        if k.startswith('k') and (k.endswith('Bot') or k.endswith('Top')):
            setattr(cc, k, v)
    if d.get('force_ortho'):
        cc.force_orthotropic_laminate = True
    if d.get('F_reuse_factor'):
        from .oracles import shell as _sh
        cc.F_reuse = np.ascontiguousarray(_sh.laminate_F(d, cc.K)[0])
    for k in ('P', 'P_inc', 'Fc', 'T', 'T_inc', 'pdC', 'pdT', 'uTM', 'thetaTdeg', 'betadeg', 'tLAdeg', 'nx', 'nt', 'ni_method', 'ni_num_cores'):
        if k in d:
            setattr(cc, k, d[k])
    cc.out_num_cores = 1
    cc.nx = d.get('nx', max(4 * max(d['m1'], d['m2']) + 4, 16))
    cc.nt = d.get('nt', max(4 * d['n2'] + 5, 16))
    cc.ni_num_cores = d.get('ni_num_cores', 1)
    return cc


def shell_leftovers(rng, cc, d, prob=0.5):
    """loads an earlier static / buckling run left on a shell object: no part of its linear stiffness, internal force or
    tangent.  Returns the list of kinds left."""
    left = []
    if rng.random() >= prob:
        return left
    if rng.random() < 0.6:
        cc.Fc = float(10 ** rng.uniform(0, 5)); left.append('Fc')
    if rng.random() < 0.4 and 'fsdt' not in d['model']:
        cc.P = float(rng.normal() * 10 ** rng.uniform(-3, 0)); left.append('P')
    if rng.random() < 0.3:
        cc.T = float(rng.normal() * 10 ** rng.uniform(0, 4)); left.append('T')
    if rng.random() < 0.5:
        for _ in range(int(rng.integers(1, 4))):
            f = [float(x) for x in rng.normal(size=3) * 10 ** rng.uniform(0, 3)]
            cc.add_force(float(rng.uniform(0, d['L'])), float(rng.uniform(0, 360)), f[0], f[1], f[2], increment=bool(rng.random() < 0.5))
        left.append('forces')
    return left


def structure_matrices(rng, which, want):
    """(K, other, desc) of a generated PanelAssembly ('assembly') or StiffPanelBay ('bay'); want = 'kG0' | 'kM'.
    Restrained skins (ss / clamped flags) and compressive Nxx so that K is PD on its active set and the reference load
    destabilising."""
    if which == 'assembly':
        ad = assembly_desc(rng, npan=int(rng.integers(2, 4)), mmax=4)
        for d in ad['panels']:
            d['flags'] = flags(rng, style=str(rng.choice(['ss', 'clamped'])))
            d['m'] = int(rng.integers(4, 7)); d['n'] = int(rng.integers(4, 7))      # enough free terms behind the restrained edges
        ass, ps, conn = build_assembly(ad)
        for p in ps:
            p.Nxx = -1.0; p.Nyy = float(rng.choice([0.0, -0.5, 0.3])); p.Nxy = float(rng.choice([0.0, 0.4]))
        K = ass.calc_k0(silent=True)
        O = ass.calc_kG0(silent=True) if want == 'kG0' else ass.calc_kM(silent=True)
        return K, O, {'src': 'assembly', 'assembly': ad}
    d = bay_desc(rng, mmax=6, nstiff=(0, 2), fl=flags(rng, style=str(rng.choice(['ss', 'clamped']))))
    d['m'] = max(d['m'], 4); d['n'] = max(d['n'], 4)
    bay = build_bay(d)
    for p in bay.panels:
        p.Nxx = -1.0
    K = bay.calc_k0(silent=True)
    O = bay.calc_kG0(silent=True) if want == 'kG0' else bay.calc_kM(silent=True)
    return K, O, {'src': 'bay', 'bay': d}
