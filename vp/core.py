"""Shared small pieces: case results, JSON helpers, tolerant comparisons."""
import hashlib
import json

import numpy as np


def jsonable(x):
    if isinstance(x, dict):
        return {str(k): jsonable(v) for k, v in x.items()}
    if isinstance(x, (list, tuple)):
        return [jsonable(v) for v in x]
    if isinstance(x, np.ndarray):
        return jsonable(x.tolist())
    if isinstance(x, (np.floating,)):
        return float(x)
    if isinstance(x, (np.integer,)):
        return int(x)
    if isinstance(x, (np.bool_,)):
        return bool(x)
    if isinstance(x, complex):
        return [x.real, x.imag]
    if isinstance(x, float):
        if x != x or x in (float('inf'), float('-inf')):
            return repr(x)
        return x
    if x is None or isinstance(x, (int, str, bool)):
        return x
    return repr(x)


def digest(obj):
    return hashlib.sha256(json.dumps(jsonable(obj), sort_keys=True).encode()).hexdigest()[:16]


class Case(object):
    """Accumulates what the monitors observed for one generated case."""

    def __init__(self, desc=None):
        self.desc = desc or {}
        self.nontrivial = True
        self.key = None
        self.checks = 0          # oracle judgements made
        self.margin = 0.0        # worst observed error / tolerance (held ones)
        self.tags = []
        self.viol = []
        self.rej = None
        self.hits = {}
        self.info = {}
        self.cm = {}             # per-clause worst margin

    def tag(self, *t):
        for x in t:
            self.tags.append(str(x))

    def hit(self, name, n=1):
        self.hits[name] = self.hits.get(name, 0) + n

    def reject(self, why):
        self.rej = str(why)[:300]
        return self

    def judge(self, clause, err, tol, mechanism=None, data=None, count=1):
        """err <= tol expected.  Returns True when held."""
        self.checks += count
        err = float(err)
        if not (err == err):  # NaN
            ratio = float('inf')
        elif tol > 0:
            ratio = err / tol
        else:
            ratio = 0.0 if err == 0 else float('inf')
        if ratio <= 1.0:
            if ratio > self.margin:
                self.margin = ratio
            if ratio > self.cm.get(clause, -1.0):
                self.cm[clause] = ratio
            return True
        self.violate(clause, 'err=%.3e tol=%.3e' % (err, tol), mechanism, data, _count=False)
        return False

    def expect(self, clause, ok, msg='', mechanism=None, data=None):
        self.checks += 1
        if not ok:
            self.violate(clause, msg, mechanism, data, _count=False)
        return bool(ok)

    def violate(self, clause, msg='', mechanism=None, data=None, _count=True):
        if _count:
            self.checks += 1
        v = {'clause': clause, 'msg': str(msg)[:600]}
        if mechanism:
            v['mechanism'] = mechanism
        if data is not None:
            v['data'] = jsonable(data)
        self.viol.append(v)

    def record(self, idx):
        d = jsonable(self.desc)
        return {
            'idx': idx,
            'desc': d,
            'key': self.key or digest(d),
            'nontrivial': bool(self.nontrivial),
            'checks': int(self.checks),
            'margin': float(self.margin) if self.margin == self.margin else 1e300,
            'tags': self.tags,
            'viol': self.viol,
            'rej': self.rej,
            'hits': self.hits,
            'info': jsonable(self.info),
            'cm': self.cm,
        }


def entrywise_excess(K, Kref, S, tol, floor_frac=1.0):
    """max over entries of |K-Kref| / (tol*S); entries with zero scale use
    tol*max(S)*floor_frac*1e-3 as absolute floor.  Returns (ratio, (i,j))."""
    K = np.asarray(K)
    Kref = np.asarray(Kref)
    S = np.asarray(S)
    smax = float(np.abs(S).max()) if S.size else 0.0
    if smax == 0.0:
        smax = 1.0
    denom = np.where(S > 1e-30 * smax, S, 0.0) + 1e-6 * smax * floor_frac
    R = np.abs(K - Kref) / (tol * denom)
    if R.size == 0:
        return 0.0, (0, 0)
    k = int(np.argmax(R))
    ij = np.unravel_index(k, R.shape)
    return float(R[ij]), tuple(int(v) for v in ij)
