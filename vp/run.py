"""Check driver: shards a property's workload over worker subprocesses,
aggregates what the monitors observed, classifies violations against the
committed known-findings file, writes evidence and replay files.

usage: python -m vp.run <ID> quick|thorough
       python -m vp.run <ID> --replay <path>
       python -m vp.run --worker <ID> <tier> <seed> <shard> <nshards> <out>
exit:  0 held on what was observed (maybe with KNOWN-FINDING lines)
       1 VIOLATION   2 INCONCLUSIVE
"""
import collections
import importlib
import json
import os
import shutil
import subprocess
import sys
import time
import traceback

VERIF = os.path.dirname(os.path.dirname(os.path.abspath(__file__)))
PY = sys.executable


def propnum(pid):
    return int(pid[1:])


def load_mod(pid):
    return importlib.import_module('vp.checks.%s' % pid.lower())


def case_rng(seed, pid, idx):
    import numpy as np
    return np.random.default_rng(np.random.SeedSequence([int(seed), propnum(pid), int(idx)]))


def known_findings():
    p = os.path.join(VERIF, 'known_findings.json')
    if not os.path.exists(p):
        return {'open': [], 'fixed': []}
    return json.load(open(p))


# ----------------------------------------------------------------------------
# worker
# ----------------------------------------------------------------------------
def worker(pid, tier, seed, shard, nshards, out):
    from . import overlay
    info = overlay.install()
    mod = load_mod(pid)
    plan = mod.plan(tier)
    n = int(os.environ.get('VERIF_NCASES_OVERRIDE', plan['n_cases']))
    if hasattr(mod, 'setup'):
        mod.setup(tier)
    t_end = time.time() + plan.get('budget_s', 1e9)
    with open(out, 'w') as f:
        f.write(json.dumps({'meta': 1, 'rebuilt': info.get('rebuilt'),
                            'served': getattr(info.get('finder'), 'served', [])}) + '\n')
        for idx in range(shard, n, nshards):
            if time.time() > t_end:
                f.write(json.dumps({'budget_stop': idx}) + '\n')
                break
            rng = case_rng(seed, pid, idx)
            t0 = time.time()
            try:
                c = mod.run_case(rng, tier, idx)
                rec = c.record(idx)
            except Exception:
                rec = {'idx': idx, 'harness_error': traceback.format_exc()[-3000:]}
            rec['t'] = round(time.time() - t0, 3)
            f.write(json.dumps(rec) + '\n')
            f.flush()
        f.write(json.dumps({'done': 1}) + '\n')


# ----------------------------------------------------------------------------
# parent
# ----------------------------------------------------------------------------
def base_env():
    env = dict(os.environ)
    env['PYTHONHASHSEED'] = '0'
    env['OMP_DYNAMIC'] = 'false'
    env.setdefault('OMP_NUM_THREADS', '1')
    env['OPENBLAS_NUM_THREADS'] = '1'
    env['MKL_NUM_THREADS'] = '1'
    env['MPLBACKEND'] = 'Agg'
    pp = [VERIF, os.path.join(VERIF, '.deps'), os.environ.get('VERIF_REPO', '/repo')]
    env['PYTHONPATH'] = ':'.join(pp)
    return env


def run_check(pid, tier):
    t0 = time.time()
    seed = int(os.environ.get('VERIF_SEED', '0'))
    from . import overlay
    binfo = overlay.install()
    mod = load_mod(pid)
    plan = mod.plan(tier)
    nshards = min(plan.get('shards', 16), plan['n_cases'])
    rdir = os.path.join(VERIF, '.build', 'runs', '%s-%s-%d' % (pid, tier, os.getpid()))
    os.makedirs(rdir, exist_ok=True)
    env = base_env()
    env.update(plan.get('env', {}))
    procs = []
    for s in range(nshards):
        out = os.path.join(rdir, 'shard_%d.jsonl' % s)
        cmd = [PY, '-m', 'vp.run', '--worker', pid, tier, str(seed), str(s), str(nshards), out]
        log = open(os.path.join(rdir, 'shard_%d.log' % s), 'w')
        procs.append((s, out, subprocess.Popen(cmd, env=env, cwd=VERIF, stdout=log, stderr=subprocess.STDOUT), log))
    watchdog = plan.get('watchdog_s', 3600)
    problems = []
    for s, out, p, log in procs:
        left = max(1.0, t0 + watchdog - time.time())
        try:
            rc = p.wait(timeout=left)
            if rc != 0:
                problems.append('shard %d exited %d' % (s, rc))
        except subprocess.TimeoutExpired:
            p.kill()
            problems.append('shard %d hit the wall-clock watchdog (%ds)' % (s, watchdog))
        log.close()

    recs = []
    served = set()
    budget_stops = 0
    for s, out, p, log in procs:
        done = False
        if os.path.exists(out):
            for line in open(out):
                try:
                    r = json.loads(line)
                except ValueError:
                    continue
                if 'meta' in r:
                    served.update(r.get('served') or [])
                elif 'done' in r:
                    done = True
                elif 'budget_stop' in r:
                    budget_stops += 1
                else:
                    recs.append(r)
        if not done and not any(('shard %d ' % s) in q for q in problems):
            problems.append('shard %d did not finish' % s)
        if not done:
            lp = os.path.join(rdir, 'shard_%d.log' % s)
            if os.path.exists(lp):
                tail = open(lp).read()[-1500:]
                if tail.strip():
                    problems.append('shard %d log tail: %s' % (s, tail))

    san_info = None
    if tier == 'thorough' and plan.get('sanitize'):
        san_info = sanitizer_pass(pid, tier, seed, plan, rdir, env, recs, problems)
    if tier == 'thorough' and plan.get('suite_monitor'):
        # the repository's own tests, unedited, as an additional workload under the same monitors
        out = os.path.join(rdir, 'suite.json')
        env2 = dict(env, VERIF_PYTEST_OUT=out)
        try:
            p = subprocess.run([PY, '-m', 'pytest', '-q', '-p', 'no:cacheprovider', '-p', 'vp.pytest_monitors', '--timeout=900',
                                '--continue-on-collection-errors', 'compmech'], cwd=os.environ.get('VERIF_REPO', '/repo'), env=env2, timeout=2400,
                               stdout=subprocess.PIPE, stderr=subprocess.STDOUT, text=True)
            data = json.load(open(out))
            for r in data['records']:
                if r.get('property') == pid or 'harness_error' in r:
                    r['idx'] = -1
                    r.setdefault('tags', []).append('workload:repository_test_suite')
                    recs.append(r)
        except Exception as e:
            problems.append('suite-under-monitors workload failed: %r' % (e,))
    res = aggregate(pid, tier, seed, plan, recs, problems, binfo, served, budget_stops, time.time() - t0, mod, san_info)
    shutil.rmtree(rdir, ignore_errors=True)
    return res


def sanitizer_pass(pid, tier, seed, plan, rdir, env, recs, problems):
    """Re-run the first cases of the workload on AddressSanitizer+UBSan builds (gcc) of the named extensions /
    of the C library, loaded into the same interpreter with LD_PRELOAD.  An ASan report is a violation (memory
    errors make results depend on heap history); UBSan lines are counted and shown."""
    from . import build
    cfg = plan['sanitize']
    info = {'extensions': cfg.get('extensions', []), 'ctypes_lib': bool(cfg.get('ctypes_lib')), 'cases': 0,
            'asan_reports': 0, 'ubsan_lines': 0}
    try:
        env2 = dict(env)
        if cfg.get('extensions'):
            env2['VERIF_OVERLAY_EXTRA'] = build.build_sanitized(cfg['extensions'])
        if cfg.get('ctypes_lib'):
            env2['VERIF_SAN_LIB'] = build.build_ctypes_lib(sanitize=True)
        logp = os.path.join(rdir, 'san')
        env2['LD_PRELOAD'] = '/usr/lib/x86_64-linux-gnu/libasan.so.8'
        env2['ASAN_OPTIONS'] = 'detect_leaks=0:halt_on_error=0:log_path=%s' % logp
        env2['UBSAN_OPTIONS'] = 'print_stacktrace=0:log_path=%s' % logp
        n = min(cfg.get('n_cases', 64), plan['n_cases'])
        nsh = min(8, n)
        procs = []
        # cases [0, n) through the ordinary worker with a reduced plan size
        env2['VERIF_NCASES_OVERRIDE'] = str(n)
        for sh in range(nsh):
            out = os.path.join(rdir, 'san_shard_%d.jsonl' % sh)
            log = open(os.path.join(rdir, 'san_shard_%d.log' % sh), 'w')
            procs.append((out, subprocess.Popen([PY, '-m', 'vp.run', '--worker', pid, 'quick', str(seed), str(sh), str(nsh), out],
                                                env=env2, cwd=VERIF, stdout=log, stderr=subprocess.STDOUT), log))
        for out, p, log in procs:
            try:
                p.wait(timeout=3600)
            except subprocess.TimeoutExpired:
                p.kill(); problems.append('sanitizer shard hit its watchdog')
            log.close()
            if os.path.exists(out):
                for line in open(out):
                    try:
                        r = json.loads(line)
                    except ValueError:
                        continue
                    if 'idx' in r:
                        r.setdefault('tags', []).append('workload:sanitizer_build')
                        r['key'] = 'san:' + str(r.get('key'))
                        recs.append(r); info['cases'] += 1
        import glob
        samples = []
        for f in glob.glob(logp + '.*') + glob.glob(os.path.join(rdir, 'san_shard_*.log')):
            txt = open(f, errors='replace').read()
            na = txt.count('ERROR: AddressSanitizer')
            info['asan_reports'] += na
            info['ubsan_lines'] += txt.count('runtime error:')
            if na:
                i = txt.index('ERROR: AddressSanitizer')
                samples.append(txt[i:i + 1500])
            elif 'runtime error:' in txt and len(samples) < 2:
                i = txt.index('runtime error:')
                samples.append(txt[max(0, i - 200):i + 300])
        info['report_samples'] = samples[:3]
        if info['asan_reports']:
            recs.append({'idx': -2, 'desc': {'workload': 'sanitizer build'}, 'key': 'asan', 'nontrivial': False, 'checks': 1, 'margin': 0.0,
                         'tags': [], 'rej': None, 'hits': {}, 'info': {},
                         'viol': [{'clause': 'no AddressSanitizer report on the sanitized build', 'msg': samples[0][:500] if samples else ''}]})
        if info['cases'] == 0:
            problems.append('sanitizer pass judged no case')
    except Exception as e:
        problems.append('sanitizer pass failed: %r' % (e,))
    return info


def aggregate(pid, tier, seed, plan, recs, problems, binfo, served, budget_stops, wall, mod, san_info=None):
    kf = known_findings()
    open_mech = {e['mechanism']: e for e in kf.get('open', []) if e['property'] == pid}
    harness = [r for r in recs if 'harness_error' in r]
    cases = [r for r in recs if 'harness_error' not in r]
    rej = collections.Counter()
    tags = collections.Counter()
    tags_rej = collections.Counter()
    hits = collections.Counter()
    keys = set()
    checks = 0
    worst = 0.0
    viols = []
    known_hit = collections.Counter()
    clause_margin = {}
    for r in cases:
        for t in r['tags']:
            # coverage tags count only for cases that were actually judged: a class of
            # inputs that is rejected every time leaves its tag at zero => inconclusive
            if not r['rej']:
                tags[t] += 1
            else:
                tags_rej[t] += 1
        for k, v in r['hits'].items():
            hits[k] += v
        checks += r['checks']
        if r['rej']:
            rej[r['rej'][:120]] += 1
        elif r['nontrivial']:
            keys.add(r['key'])
        worst = max(worst, r['margin'])
        for k, v in r.get('cm', {}).items():
            if v > clause_margin.get(k, -1):
                clause_margin[k] = v
        for v in r['viol']:
            m = v.get('mechanism')
            if m and m in open_mech:
                known_hit[m] += 1
            else:
                viols.append((r, v))
    # replay files
    rep_dir = os.path.join(VERIF, 'replays', pid)
    lines = []
    seen_idx = set()
    for r, v in viols:
        if r['idx'] in seen_idx:
            continue
        seen_idx.add(r['idx'])
        os.makedirs(rep_dir, exist_ok=True)
        path = os.path.join(rep_dir, 's%d-%s-i%d.json' % (seed, tier, r['idx']))
        with open(path, 'w') as f:
            json.dump({'property': pid, 'seed': seed, 'tier': tier, 'idx': r['idx'],
                       'case': r['desc'], 'violations': r['viol'], 'info': r.get('info'),
                       'replay': './check %s --replay %s' % (pid, os.path.relpath(path, VERIF))}, f, indent=1)
        lines.append('VIOLATION property=%s replay=%s' % (pid, os.path.relpath(path, VERIF)))
        if len(lines) >= 25:
            break
    for m, n in sorted(known_hit.items()):
        print('KNOWN-FINDING: property=%s %s (%s; matched %d observation(s) this run)'
              % (pid, m, open_mech[m].get('what', ''), n))

    # verdict
    reasons = list(problems)
    if harness:
        reasons.append('%d case(s) raised inside the harness, e.g. idx %d: %s'
                       % (len(harness), harness[0]['idx'], harness[0]['harness_error'][-800:]))
    min_nt = plan.get('min_nontrivial', 2)
    if len(keys) < max(2, min_nt):
        reasons.append('only %d distinct non-trivial cases observed (< %d)' % (len(keys), max(2, min_nt)))
    for mon, mn in plan.get('min_hits', {}).items():
        if hits.get(mon, 0) < mn:
            reasons.append('monitor %s evaluated %d times (< %d)' % (mon, hits.get(mon, 0), mn))
    for t, mn in plan.get('min_tags', {}).items():
        if tags.get(t, 0) < mn:
            reasons.append('coverage tag %s seen %d times (< %d)' % (t, tags.get(t, 0), mn))

    samples = []
    for r in cases:
        if not r['rej'] and r['nontrivial']:
            samples.append({'idx': r['idx'], 'case': r['desc'], 'oracle_judgements': r['checks'],
                            'worst_margin': r['margin']})
        if len(samples) >= 4:
            break
    if not samples and cases:
        samples.append({'idx': cases[0]['idx'], 'case': cases[0]['desc']})

    ev = {
        'property_id': pid,
        'tier': tier,
        'seed': seed,
        'level': 'exploration',
        'coverage': {
            'evaluations': len(cases),
            'distinct_nontrivial': len(keys),
            'rule': plan.get('rule', ''),
            'samples': samples,
            'oracle_judgements': checks,
            'monitor_hits': dict(hits),
            'tags_seen': dict(sorted(tags.items())),
            'tags_of_rejected_cases': dict(sorted(tags_rej.items())),
            'rejections': dict(rej.most_common(12)),
            'n_rejected': sum(rej.values()),
            'worst_margin_err_over_tol': worst,
            'worst_margin_per_clause': {k: float('%.3g' % v) for k, v in sorted(clause_margin.items())},
            'exhaustive': bool(plan.get('exhaustive', False)),
            'known_findings_hit': dict(known_hit),
            'budget_stops': budget_stops,
        },
        'assumptions': list(plan.get('assumptions', [])) + [
            'native code under observation: in-place extension modules whose C sources hash to the pinned manifest'
            + ('; rebuilt from the working tree into an overlay: %s' % ', '.join(binfo.get('rebuilt')) if binfo.get('rebuilt') else ' (nothing differed, nothing rebuilt)'),
            'a change made only in a .pyx file cannot reach any execution on this image (no Cython)'],
        'wall_s': round(wall, 2),
        'violations': len(viols),
        'verdict': 'violated' if viols else ('inconclusive' if reasons else 'held'),
        'inconclusive_reasons': reasons,
    }
    if san_info is not None:
        ev['coverage']['sanitizer'] = san_info
    if hasattr(mod, 'extra_evidence'):
        try:
            ev['coverage'].update(mod.extra_evidence(cases))
        except Exception:
            ev['coverage']['extra_evidence_error'] = traceback.format_exc()[-500:]
    # evidence of runs against another tree (VERIF_REPO set by hand for seeded-change experiments) is kept apart
    evdir = os.path.join(VERIF, 'evidence') if os.environ.get('VERIF_REPO', '/repo') == '/repo' else os.path.join(VERIF, '.build', 'evidence_other_tree')
    os.makedirs(evdir, exist_ok=True)
    with open(os.path.join(evdir, '%s.json' % pid), 'w') as f:
        json.dump(ev, f, indent=1)

    print('%s %s seed=%d: %d cases, %d distinct non-trivial, %d oracle judgements, %d rejected, '
          'worst margin %.2e, %d violation(s), %.1fs'
          % (pid, tier, seed, len(cases), len(keys), checks, sum(rej.values()), worst, len(viols), wall))
    if viols:
        for l in lines:
            print(l)
        for r, v in viols[:8]:
            print('  idx %d clause=%s %s' % (r['idx'], v['clause'], v['msg']))
        return 1
    if reasons:
        print('INCONCLUSIVE property=%s reason=%s' % (pid, ' | '.join(reasons)[:3000]))
        return 2
    return 0


def replay(pid, path):
    from . import overlay
    overlay.install()
    rp = json.load(open(path if os.path.isabs(path) else os.path.join(VERIF, path)))
    mod = load_mod(pid)
    if hasattr(mod, 'setup'):
        mod.setup(rp['tier'])
    rng = case_rng(rp['seed'], pid, rp['idx'])
    c = mod.run_case(rng, rp['tier'], rp['idx'])
    rec = c.record(rp['idx'])
    print(json.dumps({'case': rec['desc'], 'violations': rec['viol'], 'rejected': rec['rej'],
                      'margin': rec['margin'], 'info': rec['info']}, indent=1)[:20000])
    kf = known_findings()
    open_mech = {e['mechanism'] for e in kf.get('open', []) if e['property'] == pid}
    fresh = [v for v in rec['viol'] if v.get('mechanism') not in open_mech]
    if fresh:
        print('VIOLATION property=%s replay=%s' % (pid, path))
        return 1
    for v in rec['viol']:
        print('KNOWN-FINDING: property=%s %s' % (pid, v.get('mechanism')))
    return 0


def main(argv):
    if argv and argv[0] == '--worker':
        pid, tier, seed, shard, nshards, out = argv[1:7]
        worker(pid, tier, int(seed), int(shard), int(nshards), out)
        return 0
    pid = argv[0].upper()
    if len(argv) >= 3 and argv[1] == '--replay':
        return replay(pid, argv[2])
    tier = argv[1] if len(argv) > 1 else os.environ.get('VERIF_TIER', 'quick')
    return run_check(pid, tier)


if __name__ == '__main__':
    sys.exit(main(sys.argv[1:]))
